//! Small helpers shared by the property modules

use std::hash::Hasher;

/// A Hasher that records exactly what is fed to it (bytes and write boundaries)
#[derive(Default, Clone, PartialEq, Eq, Debug)]
pub struct RecordingHasher {
    pub bytes: Vec<u8>,
    pub writes: Vec<usize>,
}

impl Hasher for RecordingHasher {
    fn finish(&self) -> u64 { crate::gen::hash64(&self.bytes) }
    fn write(&mut self, bytes: &[u8]) {
        self.writes.push(bytes.len());
        self.bytes.extend_from_slice(bytes);
    }
}

/// FNV-1a as a std Hasher
pub struct Fnv(pub u64);
impl Default for Fnv { fn default() -> Self { Fnv(0xcbf29ce484222325) } }
impl Hasher for Fnv {
    fn finish(&self) -> u64 { self.0 }
    fn write(&mut self, bytes: &[u8]) {
        for b in bytes {
            self.0 ^= *b as u64;
            self.0 = self.0.wrapping_mul(0x100000001b3);
        }
    }
}

/// SipHash-1-3 with fixed keys (own implementation, no extra crate)
pub struct Sip13 {
    v0: u64, v1: u64, v2: u64, v3: u64,
    tail: u64, ntail: usize, length: usize,
}

impl Sip13 {
    pub fn new(k0: u64, k1: u64) -> Sip13 {
        Sip13 {
            v0: k0 ^ 0x736f6d6570736575, v1: k1 ^ 0x646f72616e646f6d,
            v2: k0 ^ 0x6c7967656e657261, v3: k1 ^ 0x7465646279746573,
            tail: 0, ntail: 0, length: 0,
        }
    }
    #[inline]
    fn round(&mut self) {
        self.v0 = self.v0.wrapping_add(self.v1); self.v1 = self.v1.rotate_left(13); self.v1 ^= self.v0; self.v0 = self.v0.rotate_left(32);
        self.v2 = self.v2.wrapping_add(self.v3); self.v3 = self.v3.rotate_left(16); self.v3 ^= self.v2;
        self.v0 = self.v0.wrapping_add(self.v3); self.v3 = self.v3.rotate_left(21); self.v3 ^= self.v0;
        self.v2 = self.v2.wrapping_add(self.v1); self.v1 = self.v1.rotate_left(17); self.v1 ^= self.v2; self.v2 = self.v2.rotate_left(32);
    }
    fn block(&mut self, m: u64) {
        self.v3 ^= m;
        self.round();
        self.v0 ^= m;
    }
}

impl Hasher for Sip13 {
    fn write(&mut self, bytes: &[u8]) {
        for &b in bytes {
            self.tail |= (b as u64) << (8 * self.ntail);
            self.ntail += 1;
            self.length += 1;
            if self.ntail == 8 {
                let m = self.tail;
                self.block(m);
                self.tail = 0;
                self.ntail = 0;
            }
        }
    }
    fn finish(&self) -> u64 {
        let mut s = Sip13 { v0: self.v0, v1: self.v1, v2: self.v2, v3: self.v3, tail: self.tail, ntail: self.ntail, length: self.length };
        let b = ((s.length as u64 & 0xff) << 56) | s.tail;
        s.block(b);
        s.v2 ^= 0xff;
        s.round(); s.round(); s.round();
        s.v0 ^ s.v1 ^ s.v2 ^ s.v3
    }
}

pub fn split_budget(kind: &'static str, total: u64, per_unit: u64) -> Vec<crate::Unit> {
    let mut v = vec![];
    let mut start = 0;
    while start < total {
        let c = per_unit.min(total - start);
        v.push(crate::Unit { kind, start, count: c, param: 0 });
        start += c;
    }
    v
}

pub fn split_budget_param(kind: &'static str, total: u64, per_unit: u64, param: i64) -> Vec<crate::Unit> {
    let mut v = split_budget(kind, total, per_unit);
    for u in v.iter_mut() {
        u.param = param;
    }
    v
}

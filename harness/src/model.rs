//! Reference model: exact (BigInt, scale) arithmetic written from the property
//! statements.  It never calls the crate under test: powers of ten come from
//! `BigInt::pow`, digit counts from the decimal string, rounding from exact
//! remainder comparison, roots are verified by bracket before use.

use crate::gen::{ndigits, pow10, Dec};
use bigdecimal::RoundingMode;
use num_bigint::{BigInt, Sign};
use num_integer::Integer;
use num_traits::{One, Signed, Zero};
use std::cmp::Ordering;

pub const MODES: [RoundingMode; 7] = [
    RoundingMode::Up,
    RoundingMode::Down,
    RoundingMode::Ceiling,
    RoundingMode::Floor,
    RoundingMode::HalfUp,
    RoundingMode::HalfDown,
    RoundingMode::HalfEven,
];

pub fn mode_name(m: RoundingMode) -> &'static str {
    match m {
        RoundingMode::Up => "Up",
        RoundingMode::Down => "Down",
        RoundingMode::Ceiling => "Ceiling",
        RoundingMode::Floor => "Floor",
        RoundingMode::HalfUp => "HalfUp",
        RoundingMode::HalfDown => "HalfDown",
        RoundingMode::HalfEven => "HalfEven",
    }
}

pub fn mode_from_name(s: &str) -> Option<RoundingMode> {
    MODES.iter().copied().find(|m| mode_name(*m) == s)
}

pub fn mirror(m: RoundingMode) -> RoundingMode {
    match m {
        RoundingMode::Floor => RoundingMode::Ceiling,
        RoundingMode::Ceiling => RoundingMode::Floor,
        x => x,
    }
}

/// What is left of the exact value below the rounding unit
#[derive(Clone, Copy, Debug, PartialEq, Eq)]
pub enum Tail {
    Zero,
    BelowHalf,
    Half,
    AboveHalf,
}

/// The documented mode table: should the magnitude be incremented?
/// `negative` is the sign of the exact value, `odd` the parity of the truncated magnitude.
pub fn rounds_away(mode: RoundingMode, negative: bool, odd: bool, tail: Tail) -> bool {
    if tail == Tail::Zero {
        return false;
    }
    match mode {
        RoundingMode::Up => true,
        RoundingMode::Down => false,
        RoundingMode::Ceiling => !negative,
        RoundingMode::Floor => negative,
        RoundingMode::HalfUp => tail != Tail::BelowHalf,
        RoundingMode::HalfDown => tail == Tail::AboveHalf,
        RoundingMode::HalfEven => tail == Tail::AboveHalf || (tail == Tail::Half && odd),
    }
}

pub fn tail_of(twice_rem_vs_unit: Ordering, rem_is_zero: bool) -> Tail {
    if rem_is_zero {
        Tail::Zero
    } else {
        match twice_rem_vs_unit {
            Ordering::Less => Tail::BelowHalf,
            Ordering::Equal => Tail::Half,
            Ordering::Greater => Tail::AboveHalf,
        }
    }
}

/// round(n / 10^k) to an integer under `mode` (n signed)
pub fn round_div_pow10(n: &BigInt, k: u64, mode: RoundingMode) -> BigInt {
    if k == 0 {
        return n.clone();
    }
    let p = pow10(k);
    let mag = n.abs();
    let (q, r) = mag.div_rem(&p);
    let tail = tail_of((&r * 2u8).cmp(&p), r.is_zero());
    let neg = n.is_negative();
    let q = if rounds_away(mode, neg, q.is_odd(), tail) { q + 1u8 } else { q };
    if neg { -q } else { q }
}

/// round(num / den) to an integer under `mode`; den > 0
pub fn round_div(num: &BigInt, den: &BigInt, mode: RoundingMode) -> BigInt {
    debug_assert!(den.is_positive());
    let mag = num.abs();
    let (q, r) = mag.div_rem(den);
    let tail = tail_of((&r * 2u8).cmp(den), r.is_zero());
    let neg = num.is_negative();
    let q = if rounds_away(mode, neg, q.is_odd(), tail) { q + 1u8 } else { q };
    if neg { -q } else { q }
}

/// The value rounded to scale `s`: exact extension when s >= d.s
pub fn round_to_scale(d: &Dec, s: i64, mode: RoundingMode) -> Dec {
    if s >= d.s {
        let k = (s as i128 - d.s as i128) as u64;
        Dec { n: &d.n * pow10(k), s }
    } else {
        let k = (d.s as i128 - s as i128) as u64;
        // if k exceeds the digit count by more than one, avoid a huge power: the tail is < half unless ...
        let nd = ndigits(&d.n);
        if k > nd + 1 {
            let tail = if d.n.is_zero() { Tail::Zero } else { Tail::BelowHalf };
            let away = rounds_away(mode, d.n.is_negative(), false, tail);
            let q = if away { BigInt::one() } else { BigInt::zero() };
            return Dec { n: if d.n.is_negative() { -q } else { q }, s };
        }
        Dec { n: round_div_pow10(&d.n, k, mode), s }
    }
}

/// The value rounded at its p-th significant digit (p >= 1).  The returned
/// representation carries scale `d.s + p - digits` (after an all-nines carry
/// the integer has p+1 digits; callers compare by value).
pub fn round_to_prec(d: &Dec, p: u64, mode: RoundingMode) -> Dec {
    let nd = ndigits(&d.n) as i128;
    let s = d.s as i128 + p as i128 - nd;
    round_to_scale(d, i64::try_from(s).expect("scale overflow in model"), mode)
}

pub fn sign_i(n: &BigInt) -> i32 {
    match n.sign() {
        Sign::Minus => -1,
        Sign::NoSign => 0,
        Sign::Plus => 1,
    }
}

/// Numeric comparison of two decimals without materialising huge powers
pub fn cmp_dec(a: &Dec, b: &Dec) -> Ordering {
    let (sa, sb) = (sign_i(&a.n), sign_i(&b.n));
    if sa != sb {
        return sa.cmp(&sb);
    }
    if sa == 0 {
        return Ordering::Equal;
    }
    // same non-zero sign: compare magnitudes, flip for negatives
    let ea = ndigits(&a.n) as i128 - a.s as i128; // adjusted exponent + 1
    let eb = ndigits(&b.n) as i128 - b.s as i128;
    let mag = if ea != eb {
        ea.cmp(&eb)
    } else {
        // equal decade: the scale gap is at most the larger digit count
        let (ma, mb) = (a.n.abs(), b.n.abs());
        if a.s >= b.s {
            let k = (a.s as i128 - b.s as i128) as u64;
            ma.cmp(&(mb * pow10(k)))
        } else {
            let k = (b.s as i128 - a.s as i128) as u64;
            (ma * pow10(k)).cmp(&mb)
        }
    };
    if sa < 0 { mag.reverse() } else { mag }
}

pub fn eq_dec(a: &Dec, b: &Dec) -> bool {
    cmp_dec(a, b) == Ordering::Equal
}

/// Align two decimals to the larger scale
pub fn align(a: &Dec, b: &Dec) -> (BigInt, BigInt, i64) {
    let s = a.s.max(b.s);
    let x = &a.n * pow10((s as i128 - a.s as i128) as u64);
    let y = &b.n * pow10((s as i128 - b.s as i128) as u64);
    (x, y, s)
}

pub fn add(a: &Dec, b: &Dec) -> Dec {
    let (x, y, s) = align(a, b);
    Dec { n: x + y, s }
}

pub fn sub(a: &Dec, b: &Dec) -> Dec {
    let (x, y, s) = align(a, b);
    Dec { n: x - y, s }
}

pub fn mul(a: &Dec, b: &Dec) -> Dec {
    Dec { n: &a.n * &b.n, s: a.s + b.s }
}

/// truncated remainder on aligned integers
pub fn rem(a: &Dec, b: &Dec) -> Dec {
    let (x, y, s) = align(a, b);
    Dec { n: x % y, s }
}

pub fn half(a: &Dec) -> Dec {
    Dec { n: &a.n * 5u8, s: a.s + 1 }
}

/// canonical form: no trailing zero digit; zero is (0, 0)
pub fn normalize(a: &Dec) -> Dec {
    if a.n.is_zero() {
        return Dec { n: BigInt::zero(), s: 0 };
    }
    let txt = a.n.magnitude().to_string();
    let trimmed = txt.trim_end_matches('0');
    let k = (txt.len() - trimmed.len()) as i64;
    let mut n: BigInt = trimmed.parse().unwrap();
    if a.n.is_negative() {
        n = -n;
    }
    Dec { n, s: a.s - k }
}

/// trunc(value) as an integer
pub fn trunc_int(a: &Dec) -> BigInt {
    if a.s <= 0 {
        &a.n * pow10((-(a.s as i128)) as u64)
    } else {
        let nd = ndigits(&a.n);
        if a.s as u64 > nd {
            return BigInt::zero();
        }
        let p = pow10(a.s as u64);
        let q = a.n.abs() / p;
        if a.n.is_negative() { -q } else { q }
    }
}

pub fn frac_is_zero(a: &Dec) -> bool {
    if a.s <= 0 || a.n.is_zero() {
        return true;
    }
    let nd = ndigits(&a.n);
    if a.s as u64 > nd {
        return false;
    }
    (a.n.abs() % pow10(a.s as u64)).is_zero()
}

/// floor(M^(1/k)) for M >= 0, verified by bracket (panics if num-bigint's root is wrong)
pub fn iroot(m: &BigInt, k: u32) -> BigInt {
    assert!(!m.is_negative());
    let t = BigInt::from(m.magnitude().nth_root(k));
    let lo = num_traits::pow::Pow::pow(&t, k);
    let hi = num_traits::pow::Pow::pow(&(&t + 1u8), k);
    assert!(lo <= *m && *m < hi, "model self-check: integer root bracket failed");
    t
}

/// Correctly rounded k-th root (k = 2 or 3) of |x| to p significant digits,
/// sign handled by the caller through `negative`.
/// Returns (magnitude integer, scale): value = int * 10^-scale, int has p (or p+1 after carry) digits.
pub fn root_rounded(x_mag: &BigInt, xs: i64, k: u32, p: u64, mode: RoundingMode, negative: bool) -> Dec {
    assert!(x_mag.is_positive());
    let kk = k as i128;
    // x = m * 10^-xs.  Choose unit u = 10^-t so that root/u has >= p+1 integer digits, t = scale of result.
    // decade of the root: x in [10^(e-1), 10^e) with e = digits - xs  =>  root in [10^((e-1)/k), 10^(e/k))
    let e = ndigits(x_mag) as i128 - xs as i128;
    // number of integer digits of the root = floor((e-1)/k) + 1   (floor division for negatives)
    let root_int_digits = (e - 1).div_euclid(kk) + 1;
    // result scale so that the result has exactly p significant digits
    let t = p as i128 - root_int_digits;
    // M = x * 10^(k*t) = m * 10^(k*t - xs)
    let shift = kk * t - xs as i128;
    // q = floor(root(M)) has exactly p digits; need M as a rational: m*10^shift
    let (q, exact, half_cmp) = if shift >= 0 {
        let m = x_mag * pow10(shift as u64);
        let q = iroot(&m, k);
        let exact = num_traits::pow::Pow::pow(&q, k) == m;
        // compare M * 2^k with (2q+1)^k
        let lhs = &m * num_traits::pow::Pow::pow(BigInt::from(2u8), k);
        let rhs = num_traits::pow::Pow::pow(&(&q * 2u8 + 1u8), k);
        (q, exact, lhs.cmp(&rhs))
    } else {
        // M = m / 10^d ; floor(root(M)) = floor(root(floor(M)))
        let d = pow10((-shift) as u64);
        let (mf, r) = x_mag.div_rem(&d);
        let q = iroot(&mf, k);
        let exact = r.is_zero() && num_traits::pow::Pow::pow(&q, k) == mf;
        // compare m * 2^k with (2q+1)^k * d
        let lhs = x_mag * num_traits::pow::Pow::pow(BigInt::from(2u8), k);
        let rhs = num_traits::pow::Pow::pow(&(&q * 2u8 + 1u8), k) * &d;
        (q, exact, lhs.cmp(&rhs))
    };
    debug_assert_eq!(ndigits(&q), p, "model: root digit count");
    let tail = tail_of(half_cmp, exact);
    let q = if rounds_away(mode, negative, q.is_odd(), tail) { q + 1u8 } else { q };
    Dec { n: if negative { -q } else { q }, s: i64::try_from(t).expect("model: root scale") }
}

/// Exact information about 1/|x| at precision p: floor quotient with p digits, remainder flag
pub struct Recip {
    /// floor(10^K / m) with exactly p digits (K chosen accordingly)
    pub q: BigInt,
    pub rem: BigInt,
    /// result scale: 1/x ~ q * 10^-scale
    pub scale: i128,
    pub den: BigInt,
}

/// 1/(m * 10^-xs) = 10^xs / m.  Returns p-digit floor quotient and remainder.
pub fn recip_floor(m: &BigInt, xs: i64, p: u64) -> Recip {
    assert!(m.is_positive());
    let nd = ndigits(m) as i128;
    // 10^K / m has (K - nd + 1) or (K - nd + 2) digits... choose K then fix up
    let mut kk = nd - 1 + p as i128; // gives p or p+1 digits
    let mut num = pow10(kk as u64);
    let (mut q, mut r) = num.div_rem(m);
    if ndigits(&q) > p {
        kk -= 1;
        num = pow10(kk as u64);
        let qr = num.div_rem(m);
        q = qr.0;
        r = qr.1;
    }
    assert_eq!(ndigits(&q), p, "model: reciprocal digit count");
    // 1/x = 10^xs/m = (10^K/m) * 10^(xs-K)  => scale = K - xs
    Recip { q, rem: r, scale: kk - xs as i128, den: m.clone() }
}

pub fn recip_rounded(m: &BigInt, xs: i64, p: u64, mode: RoundingMode, negative: bool) -> Dec {
    let r = recip_floor(m, xs, p);
    let tail = tail_of((&r.rem * 2u8).cmp(&r.den), r.rem.is_zero());
    let q = if rounds_away(mode, negative, r.q.is_odd(), tail) { r.q + 1u8 } else { r.q };
    Dec { n: if negative { -q } else { q }, s: i64::try_from(r.scale).expect("model: recip scale") }
}

/// Reduce a/b and tell whether the quotient terminates; if so return it exactly
pub fn exact_quotient(a: &Dec, b: &Dec) -> Option<Dec> {
    // a.n / b.n * 10^-(a.s-b.s)
    if a.n.is_zero() {
        return Some(Dec { n: BigInt::zero(), s: 0 });
    }
    let g = a.n.gcd(&b.n);
    let num = &a.n / &g;
    let mut den = (&b.n / &g).abs();
    let neg = a.n.is_negative() != b.n.is_negative();
    let (mut twos, mut fives) = (0u64, 0u64);
    let two = BigInt::from(2u8);
    let five = BigInt::from(5u8);
    while (&den % &two).is_zero() {
        den /= &two;
        twos += 1;
    }
    while (&den % &five).is_zero() {
        den /= &five;
        fives += 1;
    }
    if !den.is_one() {
        return None;
    }
    // num / (2^twos 5^fives) = num * 2^(k-twos) 5^(k-fives) / 10^k, k = max
    let k = twos.max(fives);
    let n = num.abs()
        * num_traits::pow::Pow::pow(BigInt::from(2u8), k - twos)
        * num_traits::pow::Pow::pow(BigInt::from(5u8), k - fives);
    let s = a.s as i128 - b.s as i128 + k as i128;
    Some(Dec { n: if neg { -n } else { n }, s: i64::try_from(s).ok()? })
}

/// self-check of the model on hand-computed cases; Err(text) means the harness is broken
pub fn self_check() -> Result<(), String> {
    use RoundingMode::*;
    let d = |n: i64, s: i64| Dec { n: BigInt::from(n), s };
    let chk = |name: &str, got: Dec, want: Dec| -> Result<(), String> {
        if got != want { Err(format!("model self-check {}: got {:?} want {:?}", name, got, want)) } else { Ok(()) }
    };
    chk("2.5 HalfEven", round_to_scale(&d(25, 1), 0, HalfEven), d(2, 0))?;
    chk("3.5 HalfEven", round_to_scale(&d(35, 1), 0, HalfEven), d(4, 0))?;
    chk("2.5 HalfUp", round_to_scale(&d(25, 1), 0, HalfUp), d(3, 0))?;
    chk("2.5 HalfDown", round_to_scale(&d(25, 1), 0, HalfDown), d(2, 0))?;
    chk("-2.5 HalfUp", round_to_scale(&d(-25, 1), 0, HalfUp), d(-3, 0))?;
    chk("-1.1 Ceiling", round_to_scale(&d(-11, 1), 0, Ceiling), d(-1, 0))?;
    chk("-1.1 Floor", round_to_scale(&d(-11, 1), 0, Floor), d(-2, 0))?;
    chk("1.1 Up", round_to_scale(&d(11, 1), 0, Up), d(2, 0))?;
    chk("1.9 Down", round_to_scale(&d(19, 1), 0, Down), d(1, 0))?;
    chk("0.001 Up to 0", round_to_scale(&d(1, 3), 0, Up), d(1, 0))?;
    chk("0.001 HalfUp to 0", round_to_scale(&d(1, 3), 0, HalfUp), d(0, 0))?;
    chk("999.5 prec 3", round_to_prec(&d(9995, 1), 3, HalfUp), d(1000, 0))?;
    chk("12 prec 5", round_to_prec(&d(12, 0), 5, HalfUp), d(12000, 3))?;
    // sqrt(2) to 10 digits = 1.414213562 (next digits 373...)
    chk("sqrt2", root_rounded(&BigInt::from(2), 0, 2, 10, HalfEven, false), Dec { n: BigInt::from(1414213562i64), s: 9 })?;
    chk("sqrt2 up", root_rounded(&BigInt::from(2), 0, 2, 10, Up, false), Dec { n: BigInt::from(1414213563i64), s: 9 })?;
    chk("sqrt 0.04", root_rounded(&BigInt::from(4), 2, 2, 3, Up, false), d(200, 3))?;
    chk("sqrt 400", root_rounded(&BigInt::from(4), -2, 2, 2, Down, false), d(20, 0))?;
    chk("cbrt 27", root_rounded(&BigInt::from(27), 0, 3, 2, Up, false), d(30, 1))?;
    chk("cbrt 2", root_rounded(&BigInt::from(2), 0, 3, 6, HalfEven, false), d(125992, 5))?;
    chk("cbrt 0.001", root_rounded(&BigInt::from(1), 3, 3, 1, HalfEven, false), d(1, 1))?;
    chk("cbrt -2 floor", root_rounded(&BigInt::from(2), 0, 3, 3, Floor, true), d(-126, 2))?;
    // 1/7 = 0.142857142857...
    chk("1/7", recip_rounded(&BigInt::from(7), 0, 6, HalfEven, false), d(142857, 6))?;
    chk("1/7 up", recip_rounded(&BigInt::from(7), 0, 3, Up, false), d(143, 3))?;
    chk("1/8", recip_rounded(&BigInt::from(8), 0, 3, Up, false), d(125, 3))?;
    chk("1/0.00005", recip_rounded(&BigInt::from(5), 5, 1, Floor, false), d(2, -4))?;
    if exact_quotient(&d(1, 0), &d(8, 0)) != Some(d(125, 3)) {
        return Err("model self-check exact_quotient 1/8".into());
    }
    if exact_quotient(&d(1, 0), &d(3, 0)).is_some() {
        return Err("model self-check exact_quotient 1/3".into());
    }
    if cmp_dec(&d(1, 0), &d(10, 1)) != Ordering::Equal || cmp_dec(&d(-1, 0), &d(-11, 1)) != Ordering::Greater {
        return Err("model self-check cmp".into());
    }
    if cmp_dec(&Dec { n: BigInt::from(1), s: i64::MAX }, &Dec { n: BigInt::from(1), s: i64::MIN }) != Ordering::Less {
        return Err("model self-check cmp wide".into());
    }
    if normalize(&d(-1200, 1)) != d(-12, -1) || trunc_int(&d(-129, 1)) != BigInt::from(-12) {
        return Err("model self-check normalize/trunc".into());
    }
    Ok(())
}

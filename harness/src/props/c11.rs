//! C11 — cube root is the true root rounded as the context dictates, for both signs

use crate::gen::{ndigits, Dec, Rng};
use crate::model::{self, mirror, mode_from_name, mode_name, MODES};
use crate::monitor::{Case, Ctx};
use crate::props::c10::{cmp_power, gen_precision, gen_radicand};
use crate::{PropDef, Tier, Unit};
use bigdecimal::{BigDecimal, Context, RoundingMode};
use num_bigint::BigInt;
use num_traits::{Signed, Zero};
use std::cmp::Ordering;
use std::num::NonZeroU64;

pub fn def() -> PropDef {
    PropDef {
        id: "C11",
        plan,
        run_unit,
        replay,
        required_probes: &["Cbrt_RemPos", "Cbrt_RemNeg", "Cbrt_RemZero", "Cbrt_LeadingZeroRemainder", "Cbrt_Inexact", "Cbrt_Exact"],
        rule: "exhaustive small scope: every |n| in 1..1500, both signs x scales -3..3 x p 1..3 x 7 modes; then seeded decimals of both signs, 1..2000 digits, scales -2000..2000 covering all residues mod 3, with dedicated families: inputs longer than 3(p+5) digits, perfect cubes t^3, perfect cubes +-1 unit in a far-away digit (1..120 places down, one in four anywhere down to the 2000-digit limit, one in four on or beside the 3(p+5)-th digit; one in three written with 1..4 trailing zeros), roots with 5000.. (exact tie) / 5000..x / 4999..9x / 99..9 tails after the p-th digit (built by cubing a (p+1..p+40)-digit root and perturbing), all-nines and 10^k; p in 1..150 and 160, weight on 1..5 and 100; 7 modes; cbrt_with_context on x and -x and cbrt() for the default context; oracle = correctly rounded root from a verified integer cube-root bracket with Floor/Ceiling on the signed value, directed-mode inequalities r^3 >= x / r^3 <= x separately, and the mirror identity cbrt(-x, m) = -cbrt(x, mirror(m)) on the crate's own outputs. distinct = distinct (x, p, mode); non-trivial = root not representable in p digits",
    }
}

fn plan(tier: Tier) -> Vec<Unit> {
    match tier {
        Tier::Quick => { let mut v = crate::util::split_budget("roots", 240_000, 2_000); v.extend(crate::util::split_budget("small", 1_500, 30)); v }
        Tier::Thorough => { let mut v = crate::util::split_budget("roots", 24_000_000, 10_000); v.extend(crate::util::split_budget("small", 1_500, 15)); v }
        Tier::Miri => crate::util::split_budget("roots", 4, 2),
    }
}

fn run_unit(unit: &Unit, r: &mut Rng, ctx: &mut Ctx) {
    if unit.kind == "small" {
        // exhaustive: every n in 1..=1500, both signs x scale -3..=3 x p 1..=3 x 7 modes
        for idx in unit.start..unit.start + unit.count {
            let n = idx as i64 + 1;
            for sg in [1i64, -1] {
                for s in -3i64..=3 {
                    for p in 1u64..=3 {
                        for &mode in MODES.iter() {
                            let case = Case::new("cbrt").push(Dec::new(BigInt::from(sg * n), s).tok()).push(p).push(mode_name(mode));
                            check_case(&case, ctx);
                        }
                    }
                }
            }
        }
        if unit.start == 0 {
            ctx.exhaustive_notes.push("C11 small scope: every |n| in 1..1500, both signs x scales -3..3 x p 1..3 x 7 modes (441 000 cases)".into());
        }
        return;
    }
    for i in 0..unit.count {
        let p = if r.chance(1, 30) { 160 } else { gen_precision(r) };
        let mut x = if r.chance(1, 60) { Dec::new(BigInt::zero(), r.range(-50, 50)) } else { gen_radicand(r, 3, p, unit.start + i) };
        if r.bool() { x = x.neg(); }
        let mode = *r.pick(&MODES);
        let case = Case::new("cbrt").push(x.tok()).push(p).push(mode_name(mode));
        check_case(&case, ctx);
    }
}

fn replay(case: &Case, ctx: &mut Ctx) {
    check_case(case, ctx);
}

fn default_ctx() -> (u64, RoundingMode) {
    (crate::param("precision").and_then(|p| p.parse().ok()).unwrap_or(100),
     crate::param("mode").and_then(|m| mode_from_name(&m)).unwrap_or(RoundingMode::HalfEven))
}

fn judge(ctx: &mut Ctx, case: &Case, what: &str, r: Result<BigDecimal, String>, x: &Dec, p: u64, mode: RoundingMode) -> Option<Dec> {
    let neg = x.n.is_negative();
    let mag = x.n.abs();
    let want = model::root_rounded(&mag, x.s, 3, p, mode, neg);
    match r {
        Err(pn) => { ctx.fail("cbrt/panic", case, format!("`{}` panicked: {}", what, pn)); None }
        Ok(v) => {
            ctx.out_bd(&v);
            let g = Dec::of(&v);
            let held = ctx.check(model::eq_dec(&g, &want), "cbrt/not-correctly-rounded", case, || format!("`{}`: cbrt({}) p={} {} = {} want {}", what, x.tok(), p, mode_name(mode), g.tok(), want.tok()));
            if what == "cbrt_with_context" && ctx.want_event() && x.tok().len() < 400 {
                ctx.log("cbrt", &[x.tok()], serde_json::json!({"p": p, "mode": mode_name(mode)}), g.tok(), held);
            }
            // directed modes on the signed value: Ceiling => r >= true root, Floor => r <= true root, Up => |r| >= |root|, Down => |r| <= |root|
            let c = cmp_power(&g, 3, &mag, x.s); // |g|^3 vs |x|
            let sign_ok = g.n.is_zero() || g.n.is_negative() == neg;
            ctx.check(sign_ok, "cbrt/wrong-sign", case, || format!("`{}`: cbrt({}) = {}", what, x.tok(), g.tok()));
            let (need_mag_ge, need_mag_le) = match mode {
                RoundingMode::Up => (true, false),
                RoundingMode::Down => (false, true),
                RoundingMode::Ceiling => (!neg, neg),
                RoundingMode::Floor => (neg, !neg),
                _ => (false, false),
            };
            if need_mag_ge { ctx.check(c != Ordering::Less, "cbrt/wrong-side-of-true-root", case, || format!("`{}`: |{}|^3 < |x| under {}", what, g.tok(), mode_name(mode))); }
            if need_mag_le { ctx.check(c != Ordering::Greater, "cbrt/wrong-side-of-true-root", case, || format!("`{}`: |{}|^3 > |x| under {}", what, g.tok(), mode_name(mode))); }
            Some(g)
        }
    }
}

pub fn check_case(case: &Case, ctx: &mut Ctx) {
    let x = match Dec::from_tok(case.arg(0)) { Some(d) => d, None => return };
    let p: u64 = match case.arg(1).parse() { Ok(p) if p >= 1 => p, _ => return };
    let mode = mode_from_name(case.arg(2)).unwrap_or(RoundingMode::HalfEven);
    ctx.begin_case(case);
    let b = x.bd();
    let c = Context::new(NonZeroU64::new(p).unwrap(), mode);
    if x.n.is_zero() {
        match ctx.guard(|| (b.cbrt_with_context(&c), b.cbrt())) {
            Err(pn) => ctx.fail("cbrt/panic", case, format!("cbrt of zero panicked: {}", pn)),
            Ok((a1, a2)) => { ctx.check(a1.is_zero() && a2.is_zero(), "cbrt/zero", case, || "cbrt(0) is not 0".to_string()); }
        }
        ctx.end_case(case.hash(), false);
        return;
    }
    let mag = x.n.abs();
    let exact = model::root_rounded(&mag, x.s, 3, p, RoundingMode::Down, false) == model::root_rounded(&mag, x.s, 3, p, RoundingMode::Up, false);
    let r = ctx.guard(|| b.cbrt_with_context(&c));
    let g1 = judge(ctx, case, "cbrt_with_context", r, &x, p, mode);
    // the mirrored call on -x, judged on its own and against g1
    let nx = x.neg();
    let nb = nx.bd();
    let cm = Context::new(NonZeroU64::new(p).unwrap(), mirror(mode));
    let r = ctx.guard(|| nb.cbrt_with_context(&cm));
    let g2 = judge(ctx, case, "cbrt_with_context (negated input, mirrored mode)", r, &nx, p, mirror(mode));
    if let (Some(g1), Some(g2)) = (g1, g2) {
        ctx.check(model::eq_dec(&g1, &g2.neg()), "cbrt/mirror-identity", case, || format!("cbrt({}, {}) = {} but -cbrt({}, {}) = {}", x.tok(), mode_name(mode), g1.tok(), nx.tok(), mode_name(mirror(mode)), g2.neg().tok()));
    }
    let (dp, dm) = default_ctx();
    if p == dp || case.hash() % 4 == 0 {
        let r = ctx.guard(|| b.cbrt());
        judge(ctx, case, "cbrt (default context)", r, &x, dp, dm);
    }
    ctx.end_case(case.hash(), !exact);
    if ctx.want_sample() && !exact {
        ctx.sample(case, format!("x has {} digits; cbrt = {}", ndigits(&x.n), model::root_rounded(&mag, x.s, 3, p, mode, x.n.is_negative()).tok()));
    }
}

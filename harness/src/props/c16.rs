//! C16 — precision formatting rounds correctly; flags never alter the digits

use crate::gen::{self, ndigits, Dec, Rng};
use crate::model::{self, mode_from_name, mode_name};
use crate::monitor::{Case, Ctx};
use crate::props::c05::recognise;
use crate::{PropDef, Tier, Unit};
use bigdecimal::{BigDecimal, RoundingMode};
use num_bigint::BigInt;
use num_traits::{Signed, Zero};
use std::num::NonZeroU64;

pub fn def() -> PropDef {
    PropDef {
        id: "C16",
        plan,
        run_unit,
        replay,
        required_probes: &[
            "Fmt_FullScale", "Fmt_IntPad", "Fmt_IntPadLimit", "Fmt_WithInteger", "Fmt_NoInteger_RoundBeforeDigits", "Fmt_NoInteger_Sig",
            "Fmt_RoundNoCarry", "Fmt_RoundCarry", "Fmt_RoundAllNines",
        ],
        rule: "exhaustive small scope: every |n| < N (10^4 quick, 10^5 thorough) x scale -3..8 x precision 0..9 through {:.P} and {:.Pe}, parsed back with the independent numeral recogniser and compared with the model (round to scale P / to P+1 significant digits under the default mode, exactly P fraction digits); seeded decimals to 300 digits, scales -1100..400, P in 0..1100 including P and (-scale)+P+1 around the padding limit 1000 +- 2, ties at the rounding digit (with stored trailing zeros), all-nines carries, values below half a unit of the last printed place, both signs, also judged against with_scale_round / with_precision_round; 34 flag combinations (width 0..60, fills * 0 space e-acute #, alignments < ^ >, '+', '0') on {} {:.P} {:e} {:.Pe} {:.PE} must equal the unflagged numeral padded by the std rules; value and reference renderings identical. distinct = distinct (decimal, P) pairs; non-trivial = digits are discarded by the requested precision",
    }
}

fn plan(tier: Tier) -> Vec<Unit> {
    match tier {
        Tier::Quick => {
            let mut v = crate::util::split_budget_param("small", 2 * 10_000 - 1, 200, 10_000);
            v.extend(crate::util::split_budget("random", 300_000, 3_000));
            v.extend(crate::util::split_budget("flags", 30_000, 500));
            v
        }
        Tier::Thorough => {
            let mut v = crate::util::split_budget_param("small", 2 * 100_000 - 1, 500, 100_000);
            v.extend(crate::util::split_budget("random", 30_000_000, 20_000));
            v.extend(crate::util::split_budget("flags", 3_000_000, 5_000));
            v
        }
        Tier::Miri => {
            let mut v = crate::util::split_budget("random", 6, 3);
            v.extend(crate::util::split_budget("flags", 2, 1));
            v
        }
    }
}

fn default_mode() -> RoundingMode {
    crate::param("mode").and_then(|m| mode_from_name(&m)).unwrap_or(RoundingMode::HalfEven)
}
fn padding_limit() -> i128 {
    crate::param("padding").and_then(|p| p.parse().ok()).unwrap_or(1000)
}

/// parse a printed numeral with the reference recogniser (not the crate's parser)
fn parse_numeral(s: &str) -> Option<Dec> {
    let (neg, digits, scale) = recognise(s.as_bytes())?;
    let mut n = BigInt::parse_bytes(&digits, 10)?;
    if neg { n = -n; }
    Some(Dec::new(n, scale))
}

/// judge format!("{:.P}") output `text` for decimal d
fn judge_fixed(ctx: &mut Ctx, case: &Case, d: &Dec, p: usize, text: &str, mode: RoundingMode, b: Option<&BigDecimal>) {
    let want = model::round_to_scale(d, p as i64, mode);
    let parsed = match parse_numeral(text) {
        Some(x) => x,
        None => { ctx.fail("fixed/not-a-numeral", case, format!("{{:.{}}} of {} printed {:?}", p, d.tok(), text)); return; }
    };
    // integers whose padding would exceed the limit: unpadded, exponent kept, exact value
    // (a zero is written as a single '0': only its fraction zeros count as padding)
    let int_zeros = if d.n.is_zero() { 0 } else { -(d.s as i128) };
    let over_limit = d.s <= 0 && int_zeros + (if p > 0 { p as i128 + 1 } else { 0 }) > padding_limit();
    if over_limit {
        let ok = model::eq_dec(&parsed, d) && !text.contains('.') && (d.s == 0 || text.contains('e'));
        ctx.check(ok, "fixed/over-limit-integer", case, || format!("{{:.{}}} of {} (padding beyond the limit) printed {:?}", p, d.tok(), crate::monitor::abbreviate(text, 200)));
        return;
    }
    let shape_ok = !text.contains('e') && !text.contains('E') && if p == 0 { !text.contains('.') } else { text.split('.').nth(1).map(|f| f.len() == p).unwrap_or(false) };
    ctx.check(shape_ok, "fixed/wrong-shape", case, || format!("{{:.{}}} of {} printed {:?}: expected exactly {} fraction digits and no exponent", p, d.tok(), crate::monitor::abbreviate(text, 200), p));
    ctx.check(parsed == want, "fixed/wrong-rounding", case, || format!("{{:.{}}} of {} printed {:?} = {} want {} ({})", p, d.tok(), crate::monitor::abbreviate(text, 200), parsed.tok(), want.tok(), mode_name(mode)));
    // a negative value that rounds to zero may or may not keep its sign; anything else must carry the right sign
    if !want.n.is_zero() {
        ctx.check(text.starts_with('-') == d.n.is_negative(), "fixed/wrong-sign", case, || format!("{{:.{}}} of {} printed {:?}", p, d.tok(), text));
    }
    if let Some(b) = b {
        // agreement with the library's own rounding function
        if let Ok(w) = ctx.guard(|| b.with_scale_round(p as i64, mode)) {
            ctx.check(Dec::of(&w) == parsed, "fixed/disagrees-with-with_scale_round", case, || format!("{{:.{}}} of {} printed {:?} but with_scale_round gives {}", p, d.tok(), crate::monitor::abbreviate(text, 200), Dec::of(&w).tok()));
        }
    }
}

/// judge format!("{:.Pe}") / {:.PE} output
fn judge_exp(ctx: &mut Ctx, case: &Case, d: &Dec, p: usize, text: &str, upper: bool, mode: RoundingMode, b: Option<&BigDecimal>) {
    let e_char = if upper { 'E' } else { 'e' };
    let other = if upper { 'e' } else { 'E' };
    let parsed = match parse_numeral(text) {
        Some(x) => x,
        None => { ctx.fail("exp/not-a-numeral", case, format!("{{:.{}{}}} of {} printed {:?}", p, e_char, d.tok(), text)); return; }
    };
    let (mant, _exp) = match text.split_once(e_char) {
        Some(x) if !text.contains(other) => x,
        _ => { ctx.fail("exp/wrong-shape", case, format!("{{:.{}{}}} of {} printed {:?}", p, e_char, d.tok(), text)); return; }
    };
    let m = mant.trim_start_matches('-');
    let shape_ok = if p == 0 { m.len() == 1 && !m.contains('.') } else { m.len() == p + 2 && m.as_bytes()[1] == b'.' };
    ctx.check(shape_ok, "exp/wrong-shape", case, || format!("{{:.{}{}}} of {} printed {:?}: expected one integer digit and exactly {} fraction digits", p, e_char, d.tok(), crate::monitor::abbreviate(text, 200), p));
    let want = model::round_to_prec(d, p as u64 + 1, mode);
    ctx.check(model::eq_dec(&parsed, &want), "exp/wrong-rounding", case, || format!("{{:.{}{}}} of {} printed {:?} = {} want {} ({})", p, e_char, d.tok(), crate::monitor::abbreviate(text, 200), parsed.tok(), want.tok(), mode_name(mode)));
    if !d.n.is_zero() {
        ctx.check(text.starts_with('-') == d.n.is_negative() && m.as_bytes()[0] != b'0', "exp/wrong-sign-or-leading-zero", case, || format!("{{:.{}{}}} of {} printed {:?}", p, e_char, d.tok(), text));
    }
    if let Some(b) = b {
        if let Ok(w) = ctx.guard(|| b.with_precision_round(NonZeroU64::new(p as u64 + 1).unwrap(), mode)) {
            ctx.check(model::eq_dec(&Dec::of(&w), &parsed), "exp/disagrees-with-with_precision_round", case, || format!("{{:.{}{}}} of {} printed {:?} but with_precision_round gives {}", p, e_char, d.tok(), crate::monitor::abbreviate(text, 200), Dec::of(&w).tok()));
        }
    }
}

fn run_small(unit: &Unit, ctx: &mut Ctx) {
    let bound = unit.param;
    let mode = default_mode();
    let range_case = Case::new("small-range").push(unit.start).push(unit.count).push(bound);
    ctx.begin_case(&range_case);
    let mut nt = 0u64;
    for idx in unit.start..unit.start + unit.count {
        let n = idx as i64 - (bound - 1);
        for s in -3i64..=8 {
            let d = Dec::new(BigInt::from(n), s);
            let b = d.bd();
            for p in 0usize..=9 {
                let r = ctx.guard(|| (format!("{:.*}", p, b), format!("{:.*e}", p, b)));
                ctx.more_evals(1);
                match r {
                    Err(pn) => {
                        let c = Case::new("fmt").push(d.tok()).push(p);
                        ctx.fail("fmt/panic", &c, format!("formatting panicked: {}", pn));
                    }
                    Ok((f, e)) => {
                        ctx.out(&f);
                        ctx.out(&e);
                        let before = ctx.violations.len() + ctx.violation_counts.values().sum::<u64>() as usize;
                        let c = Case::new("fmt").push(d.tok()).push(p);
                        judge_fixed(ctx, &c, &d, p, &f, mode, None);
                        judge_exp(ctx, &c, &d, p, &e, false, mode, None);
                        let _ = before;
                    }
                }
                if (s > p as i64 || ndigits(&d.n) as usize > p + 1) && n != 0 { nt += 1; }
            }
        }
    }
    ctx.enumerated_nontrivial += nt;
    ctx.end_case(range_case.hash(), false);
    if unit.start == 0 {
        ctx.exhaustive_notes.push(format!("C16: all |n| < {} x scales -3..8 x precision 0..9 through {{:.P}} and {{:.Pe}}", bound));
    }
}

pub fn gen_case(r: &mut Rng) -> (Dec, usize) {
    let limit = 1000i64;
    match r.below(10) {
        0 | 1 => {
            // integers (scale <= 0) with P and (-scale)+P+1 around the padding limit
            let n = gen::int_nonzero(r, 30);
            let s = -r.range(0, 1100);
            let p = match r.below(3) { 0 => (limit - (-s) - 1 + r.range(-3, 3)).clamp(0, 1100), 1 => r.range(0, 5), _ => r.range(0, 1100) };
            (Dec::new(n, s), p as usize)
        }
        2 | 3 => {
            // tie at the rounding digit, with and without stored trailing zeros
            let keep = 1 + r.below(30) as usize;
            let mut ds = gen::digit_string(r, keep);
            ds.push('5');
            let zeros = if r.bool() { r.below(6) as usize } else { r.below(70) as usize };
            ds.push_str(&"0".repeat(zeros));
            if r.chance(1, 4) { ds.push('1'); }
            let n: BigInt = ds.parse().unwrap();
            let frac = 1 + zeros as i64 + if ds.ends_with('1') { 1 } else { 0 } + r.range(0, 12);
            let p = (frac - 1 - zeros as i64 - if ds.ends_with('1') { 1 } else { 0 }).max(0);
            (Dec::new(if r.bool() { -n } else { n }, frac), p as usize)
        }
        4 => {
            // all nines: carry creates a new integer digit
            let l = 1 + r.below(40) as usize;
            let n: BigInt = "9".repeat(l).parse().unwrap();
            let s = r.range(0, l as i64 + 3);
            (Dec::new(if r.bool() { -n } else { n }, s), r.range(0, s.max(1)) as usize)
        }
        5 => {
            // values below / at / above half a unit of the last printed place (pure fractions)
            let n = gen::int_nonzero(r, 8);
            let lead = r.range(0, 12);
            let s = ndigits(&n) as i64 + lead;
            (Dec::new(n, s), (lead + r.range(-2, 2)).max(0) as usize)
        }
        6 => {
            // zeros: near scales, and far negative scales with the precision around the padding limit
            if r.bool() { (Dec::new(BigInt::zero(), r.range(-30, 30)), r.range(0, 12) as usize) } else {
                let s = -r.range(0, 1100);
                let p = match r.below(3) { 0 => (limit - (-s) - 1 + r.range(-3, 3)).clamp(0, 1100), 1 => r.range(0, 5), _ => r.range(0, 1100) };
                (Dec::new(BigInt::zero(), s), p as usize)
            }
        }
        _ => {
            let d = gen::dec(r, 300, 400);
            let p = match r.below(3) { 0 => r.range(0, 12), 1 => (d.s + r.range(-3, 3)).clamp(0, 1100), _ => r.range(0, 400) };
            (d, p as usize)
        }
    }
}

fn run_unit(unit: &Unit, r: &mut Rng, ctx: &mut Ctx) {
    match unit.kind {
        "small" => run_small(unit, ctx),
        "random" => {
            for _ in 0..unit.count {
                let (d, p) = gen_case(r);
                let case = Case::new("fmt").push(d.tok()).push(p);
                check_case(&case, ctx);
            }
        }
        "flags" => {
            for _ in 0..unit.count {
                let (d, p) = gen_case(r);
                let d = if ndigits(&d.n) > 40 { gen::dec(r, 30, 20) } else { d };
                let w = r.range(0, 60);
                let case = Case::new("flags").push(d.tok()).push(p.min(40)).push(w);
                check_case(&case, ctx);
            }
        }
        _ => {}
    }
}

fn replay(case: &Case, ctx: &mut Ctx) {
    match case.kind() {
        "small-range" => {
            let u = Unit { kind: "small", start: case.arg(0).parse().unwrap_or(0), count: case.arg(1).parse().unwrap_or(0), param: case.arg(2).parse().unwrap_or(2000) };
            run_small(&u, ctx);
        }
        _ => check_case(case, ctx),
    }
}

#[derive(Clone, Copy)]
struct Spec { name: &'static str, fill: char, align: char, plus: bool, zero: bool }

/// what std's Formatter::pad_integral does with `core` (sign included) for this spec
fn expected_padded(unflagged: &str, spec: &Spec, width: usize) -> String {
    let (sign, body) = match unflagged.strip_prefix('-') {
        Some(rest) => ("-".to_string(), rest.to_string()),
        None => (if spec.plus { "+".to_string() } else { String::new() }, unflagged.to_string()),
    };
    let len = sign.chars().count() + body.chars().count();
    if len >= width {
        return format!("{}{}", sign, body);
    }
    let pad = width - len;
    if spec.zero {
        return format!("{}{}{}", sign, "0".repeat(pad), body);
    }
    let (l, rt) = match spec.align { '<' => (0, pad), '^' => (pad / 2, pad - pad / 2), _ => (pad, 0) };
    format!("{}{}{}{}", spec.fill.to_string().repeat(l), sign, body, spec.fill.to_string().repeat(rt))
}

macro_rules! spec_table {
    ($x:expr, $w:expr, $p:expr; $( ($name:literal, $fill:literal, $align:literal, $plus:literal, $zero:literal, $f_plain:literal, $f_prec:literal, $f_e:literal, $f_pe:literal, $f_pE:literal) ),* $(,)?) => {{
        let mut v: Vec<(Spec, [String; 5])> = vec![];
        $( v.push((Spec { name: $name, fill: $fill, align: $align, plus: $plus, zero: $zero },
            [format!($f_plain, $x, w = $w), format!($f_prec, $x, w = $w, p = $p), format!($f_e, $x, w = $w), format!($f_pe, $x, w = $w, p = $p), format!($f_pE, $x, w = $w, p = $p)])); )*
        v
    }};
}

pub fn check_case(case: &Case, ctx: &mut Ctx) {
    let d = match Dec::from_tok(case.arg(0)) { Some(d) => d, None => return };
    let p: usize = match case.arg(1).parse() { Ok(p) => p, Err(_) => return };
    let mode = default_mode();
    ctx.begin_case(case);
    let b = d.bd();
    match case.kind() {
        "fmt" => {
            let r = ctx.guard(|| {
                let rf = b.to_ref();
                (format!("{:.*}", p, b), format!("{:.*e}", p, b), format!("{:.*E}", p, b), format!("{:.*}", p, rf), format!("{:.*e}", p, rf), format!("{:.*E}", p, rf))
            });
            ctx.more_evals(5);
            match r {
                Err(pn) => ctx.fail("fmt/panic", case, format!("formatting {} with precision {} panicked: {}", d.tok(), p, pn)),
                Ok((f, e, ue, rf, re, rue)) => {
                    ctx.out(&f);
                    ctx.out(&e);
                    judge_fixed(ctx, case, &d, p, &f, mode, Some(&b));
                    judge_exp(ctx, case, &d, p, &e, false, mode, Some(&b));
                    judge_exp(ctx, case, &d, p, &ue, true, mode, None);
                    // the reference forms are judged on their own (the statement does not require identical text)
                    judge_fixed(ctx, case, &d, p, &rf, mode, None);
                    judge_exp(ctx, case, &d, p, &re, false, mode, None);
                    judge_exp(ctx, case, &d, p, &rue, true, mode, None);
                }
            }
            let nontrivial = !d.n.is_zero() && (d.s > p as i64 || ndigits(&d.n) as usize > p + 1);
            ctx.end_case(case.hash(), nontrivial);
            if ctx.want_sample() && nontrivial && ndigits(&d.n) < 60 {
                ctx.sample(case, format!("{{:.{}}} = {:?}, {{:.{}e}} = {:?}", p, format!("{:.*}", p, b), p, format!("{:.*e}", p, b)));
            }
        }
        #[cfg(not(feature = "slim"))]
        "flags" => {
            let w: usize = case.arg(2).parse().unwrap_or(0);
            let r = ctx.guard(|| {
                let base = [format!("{}", b), format!("{:.*}", p, b), format!("{:e}", b), format!("{:.*e}", p, b), format!("{:.*E}", p, b)];
                let table = spec_table!(b, w, p;
                    ("w", ' ', '>', false, false, "{:w$}", "{:w$.p$}", "{:w$e}", "{:w$.p$e}", "{:w$.p$E}"),
                    ("<w", ' ', '<', false, false, "{:<w$}", "{:<w$.p$}", "{:<w$e}", "{:<w$.p$e}", "{:<w$.p$E}"),
                    ("^w", ' ', '^', false, false, "{:^w$}", "{:^w$.p$}", "{:^w$e}", "{:^w$.p$e}", "{:^w$.p$E}"),
                    (">w", ' ', '>', false, false, "{:>w$}", "{:>w$.p$}", "{:>w$e}", "{:>w$.p$e}", "{:>w$.p$E}"),
                    ("*<w", '*', '<', false, false, "{:*<w$}", "{:*<w$.p$}", "{:*<w$e}", "{:*<w$.p$e}", "{:*<w$.p$E}"),
                    ("*^w", '*', '^', false, false, "{:*^w$}", "{:*^w$.p$}", "{:*^w$e}", "{:*^w$.p$e}", "{:*^w$.p$E}"),
                    ("*>w", '*', '>', false, false, "{:*>w$}", "{:*>w$.p$}", "{:*>w$e}", "{:*>w$.p$e}", "{:*>w$.p$E}"),
                    ("0<w", '0', '<', false, false, "{:0<w$}", "{:0<w$.p$}", "{:0<w$e}", "{:0<w$.p$e}", "{:0<w$.p$E}"),
                    ("0^w", '0', '^', false, false, "{:0^w$}", "{:0^w$.p$}", "{:0^w$e}", "{:0^w$.p$e}", "{:0^w$.p$E}"),
                    ("0>w", '0', '>', false, false, "{:0>w$}", "{:0>w$.p$}", "{:0>w$e}", "{:0>w$.p$e}", "{:0>w$.p$E}"),
                    ("é<w", 'é', '<', false, false, "{:é<w$}", "{:é<w$.p$}", "{:é<w$e}", "{:é<w$.p$e}", "{:é<w$.p$E}"),
                    ("é^w", 'é', '^', false, false, "{:é^w$}", "{:é^w$.p$}", "{:é^w$e}", "{:é^w$.p$e}", "{:é^w$.p$E}"),
                    ("é>w", 'é', '>', false, false, "{:é>w$}", "{:é>w$.p$}", "{:é>w$e}", "{:é>w$.p$e}", "{:é>w$.p$E}"),
                    ("+w", ' ', '>', true, false, "{:+w$}", "{:+w$.p$}", "{:+w$e}", "{:+w$.p$e}", "{:+w$.p$E}"),
                    ("<+w", ' ', '<', true, false, "{:<+w$}", "{:<+w$.p$}", "{:<+w$e}", "{:<+w$.p$e}", "{:<+w$.p$E}"),
                    ("#^+w", '#', '^', true, false, "{:#^+w$}", "{:#^+w$.p$}", "{:#^+w$e}", "{:#^+w$.p$e}", "{:#^+w$.p$E}"),
                    ("*>+w", '*', '>', true, false, "{:*>+w$}", "{:*>+w$.p$}", "{:*>+w$e}", "{:*>+w$.p$e}", "{:*>+w$.p$E}"),
                    ("0w", ' ', '>', false, true, "{:0w$}", "{:0w$.p$}", "{:0w$e}", "{:0w$.p$e}", "{:0w$.p$E}"),
                    ("+0w", ' ', '>', true, true, "{:+0w$}", "{:+0w$.p$}", "{:+0w$e}", "{:+0w$.p$e}", "{:+0w$.p$E}"),
                    ("<0w", ' ', '<', false, true, "{:<0w$}", "{:<0w$.p$}", "{:<0w$e}", "{:<0w$.p$e}", "{:<0w$.p$E}"),
                    ("*^+0w", '*', '^', true, true, "{:*^+0w$}", "{:*^+0w$.p$}", "{:*^+0w$e}", "{:*^+0w$.p$e}", "{:*^+0w$.p$E}"),
                );
                let rf = b.to_ref();
                let ref_table = spec_table!(rf, w, p;
                    ("ref *^+w", '*', '^', true, false, "{:*^+w$}", "{:*^+w$.p$}", "{:*^+w$e}", "{:*^+w$.p$e}", "{:*^+w$.p$E}"),
                    ("ref +0w", ' ', '>', true, true, "{:+0w$}", "{:+0w$.p$}", "{:+0w$e}", "{:+0w$.p$e}", "{:+0w$.p$E}"),
                    ("ref <w", ' ', '<', false, false, "{:<w$}", "{:<w$.p$}", "{:<w$e}", "{:<w$.p$e}", "{:<w$.p$E}"),
                );
                (base, table, ref_table)
            });
            match r {
                Err(pn) => ctx.fail("flags/panic", case, format!("formatting {} with width {} precision {} panicked: {}", d.tok(), w, p, pn)),
                Ok((base, table, ref_table)) => {
                    ctx.more_evals(5 * (table.len() + ref_table.len() + 1) as u64);
                    let kinds = ["{}", "{:.P}", "{:e}", "{:.Pe}", "{:.PE}"];
                    for (spec, outs) in table.iter().chain(ref_table.iter()) {
                        for k in 0..5 {
                            ctx.out(&outs[k]);
                            let want = expected_padded(&base[k], spec, w);
                            ctx.check(outs[k] == want, "flags/altered-output", case, || format!(
                                "spec `{}` on {} (width {}, precision {}): printed {:?} but the unflagged numeral {:?} padded by the formatter rules is {:?}", spec.name, kinds[k], w, p, outs[k], base[k], want));
                        }
                    }
                }
            }
            ctx.end_case(case.hash(), !d.n.is_zero());
            if ctx.want_sample() {
                ctx.sample(case, format!("{{:*^+w$.p$}} = {:?}", format!("{:*^+w$.p$}", b, w = w, p = p)));
            }
        }
        _ => {}
    }
}

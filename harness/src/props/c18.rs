//! C18 — representation accessors and canonical form are faithful

use crate::gen::{self, ndigits, pow10, Dec, Rng};
use crate::model;
use crate::monitor::{Case, Ctx};
use crate::{PropDef, Tier, Unit};
use bigdecimal::BigDecimal;
use num_bigint::{BigInt, Sign};
use num_traits::{Signed, Zero};

pub fn def() -> PropDef {
    PropDef {
        id: "C18",
        plan,
        run_unit,
        replay,
        required_probes: &[
            "TenPow_Lt20", "TenPow_Lt590", "TenPow_Recursive", "Digits_Zero", "Digits_EstimateExact", "Digits_Corrected",
            "Norm_Zero", "Norm_Trim", "WithScale_Up", "WithPrec_Pad", "Tows_UpU64", "Tows_UpBig", "Wsr_Extend",
        ],
        rule: "exhaustive machine-word boundaries: -9..9 and 192 integers on or beside 2^k / 10^k x scales -3, 0, 4 x every extension 0..45; exhaustive: 10^k, 10^k - 1, 10^k + 1 for every k in 0..K (K = 5000 in both tiers) both signs, and every unscaled value with up to 5 digits (4 in the quick tier) at scales -6..6; seeded decimals up to 5000 digits with 0..5000 trailing zeros, values around 2^64 / 2^128 / 10^19 / 10^38, scale and precision extensions by 0..5000 (incl. 19, 20, 255..257, 589..591). Every value through new / from_bigint / from_biguint / From<(T, i64)>, digits, sign, fractional_digit_count, as_bigint_and_exponent, as_bigint_and_scale, into_bigint_and_exponent, into_bigint_and_scale, to_ref and the reference accessors (to_owned, to_owned_with_scale, count_digits, sign, fractional_digit_count, is_zero, clone_into, abs, neg), upward with_scale / with_scale_round / with_prec / with_precision_round, normalized; oracle: digit count from the decimal string, extension = exact power of ten, normalized = equal value without trailing zero digit (zero => (0,0)), equal values => identical normalized parts. distinct = distinct decimals; non-trivial = non-zero",
    }
}

fn plan(tier: Tier) -> Vec<Unit> {
    match tier {
        Tier::Quick => {
            let mut v = crate::util::split_budget("pow10", 5_001, 20);
            v.extend(crate::util::split_budget_param("small", 2 * 10_000 - 1, 200, 10_000));
            v.extend(crate::util::split_budget("random", 60_000, 600));
            v.extend(crate::util::split_budget("words", gen::word_values().len() as u64 + 19, 8));
            v
        }
        Tier::Thorough => {
            let mut v = crate::util::split_budget("pow10", 5_001, 10);
            v.extend(crate::util::split_budget_param("small", 2 * 100_000 - 1, 500, 100_000));
            v.extend(crate::util::split_budget("random", 12_000_000, 5_000));
            v.extend(crate::util::split_budget("words", gen::word_values().len() as u64 + 19, 8));
            v
        }
        Tier::Miri => {
            let mut v = crate::util::split_budget("pow10", 30, 15);
            v.extend(crate::util::split_budget("random", 4, 2));
            v
        }
    }
}

fn run_unit(unit: &Unit, r: &mut Rng, ctx: &mut Ctx) {
    match unit.kind {
        "pow10" => {
            for k in unit.start..unit.start + unit.count {
                let p = pow10(k);
                for n in [p.clone(), &p - 1u8, &p + 1u8] {
                    for neg in [false, true] {
                        let n = if neg { -n.clone() } else { n.clone() };
                        let s = (k as i64 % 13) - 6;
                        let ext = k % 97;
                        let case = Case::new("value").push(Dec::new(n, s).tok()).push(ext);
                        check_case(&case, ctx);
                    }
                }
            }
            if unit.start == 0 {
                ctx.exhaustive_notes.push("C18: 10^k, 10^k-1, 10^k+1 for every k in the tier's range (0..5000), both signs".into());
            }
        }
        "small" => {
            let bound = unit.param;
            for idx in unit.start..unit.start + unit.count {
                let n = idx as i64 - (bound - 1);
                for s in -6i64..=6 {
                    let case = Case::new("value").push(Dec::new(BigInt::from(n), s).tok()).push((idx as i64 + s).rem_euclid(25));
                    check_case(&case, ctx);
                }
            }
            if unit.start == 0 {
                ctx.exhaustive_notes.push(format!("C18: every unscaled value |n| < {} at scales -6..6", bound));
            }
        }
        "words" => {
            // exhaustive: the one-digit integers -9..9 and the machine-word boundary integers at scales -3, 0, 4,
            // every scale / precision extension of 0..=45 digits
            let mut w: Vec<BigInt> = (-9i64..=9).map(BigInt::from).collect();
            w.extend(gen::word_values());
            for idx in unit.start..unit.start + unit.count {
                let n = &w[idx as usize % w.len()];
                for s in [-3i64, 0, 4] {
                    for ext in 0u64..=45 {
                        let case = Case::new("value").push(Dec::new(n.clone(), s).tok()).push(ext);
                        check_case(&case, ctx);
                    }
                }
            }
            if unit.start == 0 {
                ctx.exhaustive_notes.push(format!("C18 word boundaries: {} unscaled integers (-9..9 and +-(2^k + d), +-(10^k + d), ...) x scales -3, 0, 4 x every extension 0..45", w.len()));
            }
        }
        "random" => {
            for i in 0..unit.count {
                let lm = if i % 30 == 0 { 5000 } else if i % 4 == 0 { 400 } else { 40 };
                let mut d = match r.below(5) {
                    0 => {
                        // around machine-word limits and power-of-ten digit boundaries
                        let base: BigInt = match r.below(6) {
                            0 => BigInt::from(u64::MAX), 1 => BigInt::from(u128::MAX), 2 => pow10(19), 3 => pow10(20), 4 => pow10(38), _ => BigInt::from(1u8) << (r.below(400) as usize),
                        };
                        Dec::new(base + r.range(-3, 3), r.range(-30, 30))
                    }
                    _ => gen::dec(r, lm, 5000),
                };
                if r.chance(1, 2) {
                    // trailing zeros
                    let z = if r.chance(1, 10) { r.below(5000) } else { r.below(80) };
                    d = Dec::new(&d.n * pow10(z), d.s);
                }
                let ext = match r.below(4) { 0 => r.below(46), 1 => *r.pick(&gen::GAPS) as u64, 2 => r.below(5000), _ => r.below(700) }.min(5000);
                let case = Case::new("value").push(d.tok()).push(ext);
                check_case(&case, ctx);
            }
        }
        _ => {}
    }
}

fn replay(case: &Case, ctx: &mut Ctx) {
    check_case(case, ctx);
}

pub fn check_case(case: &Case, ctx: &mut Ctx) {
    let d = match Dec::from_tok(case.arg(0)) { Some(d) => d, None => return };
    let ext: u64 = case.arg(1).parse().unwrap_or(0);
    ctx.begin_case(case);
    let want_digits = ndigits(&d.n);
    let want_sign = d.n.sign();
    // constructors store exactly what they are given
    let r = ctx.guard(|| {
        let a = BigDecimal::new(d.n.clone(), d.s);
        let b = BigDecimal::from_bigint(d.n.clone(), d.s);
        let c = BigDecimal::from((d.n.clone(), d.s));
        let u = BigDecimal::from_biguint(d.n.magnitude().clone(), d.s);
        (a, b, c, u)
    });
    ctx.more_evals(3);
    let b = match r {
        Err(p) => { ctx.fail("construct/panic", case, format!("constructing {} panicked: {}", d.tok(), p)); ctx.end_case(case.hash(), false); return; }
        Ok((a, b, c, u)) => {
            let ok = Dec::of(&a) == d && Dec::of(&b) == d && Dec::of(&c) == d && Dec::of(&u) == Dec::new(d.n.abs(), d.s);
            ctx.check(ok, "construct/not-stored-exactly", case, || format!("new/from_bigint/From<(T,i64)>/from_biguint of {} stored {} / {} / {} / {}", d.tok(), Dec::of(&a).tok(), Dec::of(&b).tok(), Dec::of(&c).tok(), Dec::of(&u).tok()));
            a
        }
    };
    // accessors
    let r = ctx.guard(|| {
        let rf = b.to_ref();
        let (cow, cs) = b.as_bigint_and_scale();
        let cow = cow.into_owned();
        let (ai, ae) = b.as_bigint_and_exponent();
        let (ii, ie) = b.clone().into_bigint_and_exponent();
        let (si, ss) = b.clone().into_bigint_and_scale();
        let mut dest = -b.clone();
        rf.clone_into(&mut dest);
        // ... and the negated view onto a destination holding the value itself
        let mut dest2 = b.clone();
        (-rf).clone_into(&mut dest2);
        let dest2_ok = Dec::of(&dest2) == d.neg();
        if !dest2_ok && Dec::of(&dest) == d { dest = dest2; } // (a wrong second clone surfaces through `dest` below)
        (b.digits(), b.sign(), b.fractional_digit_count(), cow, cs, ai, ae, ii, ie, si, ss,
         rf.count_digits(), rf.sign(), rf.fractional_digit_count(), rf.is_zero(), rf.to_owned(), dest, rf.abs().to_owned(), (-rf).to_owned(),
         (rf.abs().sign(), (-rf).sign(), rf.abs().is_zero(), (-rf).abs().sign(), rf.abs().count_digits(), (-rf).fractional_digit_count()))
    });
    ctx.more_evals(24);
    match r {
        Err(p) => ctx.fail("accessor/panic", case, format!("accessors of {} panicked: {}", d.tok(), p)),
        Ok((dg, sg, fdc, cow, cs, ai, ae, ii, ie, si, ss, rdg, rsg, rfdc, rz, owned, dest, rabs, rneg, views)) => {
            {
                let abs_sign = if d.n.is_zero() { Sign::NoSign } else { Sign::Plus };
                let neg_sign = (-d.n.clone()).sign();
                let ok = views.0 == abs_sign && views.1 == neg_sign && views.2 == d.n.is_zero() && views.3 == abs_sign && views.4 == want_digits && views.5 == d.s;
                ctx.check(ok, "ref/view-accessors", case, || format!("accessors of abs()/neg() views of {}: abs.sign {:?}, neg.sign {:?}, abs.is_zero {}, neg.abs.sign {:?}, abs.count_digits {}, neg.scale {}", d.tok(), views.0, views.1, views.2, views.3, views.4, views.5));
            }
            ctx.out_u64(dg);
            ctx.check(dg == want_digits, "digits/wrong", case, || format!("digits({}) = {} but the unscaled integer has {} decimal digits", d.tok(), dg, want_digits));
            ctx.check(rdg == want_digits, "digits/wrong", case, || format!("to_ref().count_digits() of {} = {} want {}", d.tok(), rdg, want_digits));
            ctx.check(sg == want_sign && rsg == want_sign, "sign/wrong", case, || format!("sign of {}: {:?} / {:?}", d.tok(), sg, rsg));
            ctx.check(fdc == d.s && rfdc == d.s && cs == d.s && ae == d.s && ie == d.s && ss == d.s, "scale-accessor/wrong", case, || format!("scale accessors of {} disagree: {} {} {} {} {} {}", d.tok(), fdc, rfdc, cs, ae, ie, ss));
            ctx.check(cow == d.n && ai == d.n && ii == d.n && si == d.n, "integer-accessor/wrong", case, || format!("integer accessors of {} disagree", d.tok()));
            ctx.check(rz == d.n.is_zero(), "ref/is_zero", case, || format!("to_ref().is_zero() of {} = {}", d.tok(), rz));
            ctx.check(Dec::of(&owned) == d && Dec::of(&dest) == d, "ref/to_owned-clone_into", case, || format!("to_owned / clone_into of {} gave {} / {}", d.tok(), Dec::of(&owned).tok(), Dec::of(&dest).tok()));
            ctx.check(Dec::of(&rabs) == Dec::new(d.n.abs(), d.s) && Dec::of(&rneg) == d.neg(), "ref/abs-neg", case, || format!("ref abs / neg of {} gave {} / {}", d.tok(), Dec::of(&rabs).tok(), Dec::of(&rneg).tok()));
        }
    }
    // extending scale / precision multiplies by the exact power of ten
    let up_scale = d.s.saturating_add(ext as i64);
    let up_prec = want_digits + ext;
    let want_ext = Dec::new(&d.n * pow10(ext), up_scale);
    let r = ctx.guard(|| {
        (b.with_scale(up_scale), b.with_scale_round(up_scale, bigdecimal::RoundingMode::Up), b.to_ref().to_owned_with_scale(up_scale),
         b.with_prec(up_prec), b.with_precision_round(std::num::NonZeroU64::new(up_prec).unwrap(), bigdecimal::RoundingMode::Down))
    });
    ctx.more_evals(4);
    match r {
        Err(p) => ctx.fail("extend/panic", case, format!("extending {} by {} digits panicked: {}", d.tok(), ext, p)),
        Ok((a, a2, a3, a4, a5)) => {
            for (name, v) in [("with_scale", &a), ("with_scale_round", &a2), ("to_owned_with_scale", &a3), ("with_prec", &a4), ("with_precision_round", &a5)] {
                ctx.out_bd(v);
                let g = Dec::of(v);
                ctx.check(g == want_ext, "extend/not-exact-power-of-ten", case, || format!("{}: extending {} by {} digits gave {} want {}", name, crate::monitor::abbreviate(&d.tok(), 100), ext, crate::monitor::abbreviate(&g.tok(), 140), crate::monitor::abbreviate(&want_ext.tok(), 140)));
            }
        }
    }
    // canonical form
    let want_norm = model::normalize(&d);
    let twin = Dec::new(&d.n * pow10(ext.min(60)), d.s + ext.min(60) as i64);
    let tb = twin.bd();
    match ctx.guard(|| (b.normalized(), tb.normalized())) {
        Err(p) => ctx.fail("normalized/panic", case, format!("normalized({}) panicked: {}", d.tok(), p)),
        Ok((n1, n2)) => {
            ctx.more_evals(1);
            ctx.out_bd(&n1);
            let (g1, g2) = (Dec::of(&n1), Dec::of(&n2));
            ctx.check(g1 == want_norm, "normalized/wrong", case, || format!("normalized({}) = {} want {}", crate::monitor::abbreviate(&d.tok(), 100), crate::monitor::abbreviate(&g1.tok(), 100), want_norm.tok()));
            ctx.check(g2 == want_norm, "normalized/equal-values-differ", case, || format!("normalized of the equal value {} = {} but normalized({}) = {}", crate::monitor::abbreviate(&twin.tok(), 100), g2.tok(), crate::monitor::abbreviate(&d.tok(), 100), want_norm.tok()));
            // independent clauses: equal value, no trailing zero digit
            ctx.check(model::eq_dec(&g1, &d) && (g1.n.is_zero() && g1.s == 0 || !(&g1.n % BigInt::from(10)).is_zero()), "normalized/not-canonical", case, || format!("normalized({}) = {}", crate::monitor::abbreviate(&d.tok(), 100), g1.tok()));
        }
    }
    ctx.end_case(case.hash(), !d.n.is_zero());
    if ctx.want_sample() && !d.n.is_zero() && want_digits < 60 {
        ctx.sample(case, format!("digits = {}, sign = {:?}, normalized = {}, extension by {} exact", want_digits, want_sign, want_norm.tok(), ext));
    }
    let _ = Sign::Plus;
}

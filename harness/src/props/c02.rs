//! C02 — equality and ordering are those of the numeric values

use crate::gen::{self, pow10, Dec, Rng};
use crate::model;
use crate::monitor::{Case, Ctx};
use crate::{PropDef, Tier, Unit};
use bigdecimal::BigDecimal;
use num_bigint::{BigInt, BigUint, Sign};
use num_traits::{One, Zero};
use std::cmp::Ordering;

pub fn def() -> PropDef {
    PropDef {
        id: "C02",
        plan,
        run_unit,
        replay,
        required_probes: &[
            "Eq_BothZero", "Eq_SignDiffer", "Eq_SameScale", "Eq_ScaleOverflow", "Eq_BitPrefilter",
            "Eq_WordLoop", "Eq_WordLoopOverflow", "Eq_DigitWise",
            "Cmp_SignDecided", "Cmp_Zero", "Cmp_ScaleOverflow", "Cmp_SameScale", "Cmp_BitPrefilter",
            "Cmp_U64", "Cmp_U128", "Cmp_DigitCount", "Cmp_DigitWise",
        ],
        rule: "exhaustive small scope: every pair of values n*10^-s with |n| <= 60, s in -2..3; then pairs from: enumerated carry-boundary limbs (all k=1..19 x 1..6 limbs, floor(2^64/10^k), floor(2^32/10^k), floor((2^64-1)/10^k) +-{0,1,2}, twin and twin+-1, both signs), seeded twins with scale gap 1..19 and 20..80 (+-1 ulp), operands straddling u64/u128 limits, zeros of any scale, scale gaps beyond 2^63, random pairs; chains of 3..7 related values for transitivity and sort. Each pair is judged in both orders on 17 comparison forms (==, !=, <, <=, >, >=, cmp, partial_cmp on values and references, max/min) against the model order. distinct = distinct operand tuples; non-trivial = both non-zero, same sign, different scales (the sign/zero/same-scale shortcuts cannot decide)",
    }
}

fn plan(tier: Tier) -> Vec<Unit> {
    let mut v = vec![];
    match tier {
        Tier::Quick => {
            v.extend(crate::util::split_budget("boundary", 19 * 6, 6)); // k x limb-count, each unit enumerates offsets and variants
            v.extend(crate::util::split_budget("small", 726, 11));
            v.extend(crate::util::split_budget("random", 800_000, 5_000));
            v.extend(crate::util::split_budget("triples", 100_000, 2_000));
            v.extend(crate::util::split_budget("wide", 20_000, 2_000));
        }
        Tier::Thorough => {
            v.extend(crate::util::split_budget("boundary", 19 * 6, 2));
            v.extend(crate::util::split_budget("small", 726, 11));
            v.extend(crate::util::split_budget("random", 12_000_000, 20_000));
            v.extend(crate::util::split_budget("triples", 1_000_000, 10_000));
            v.extend(crate::util::split_budget("wide", 200_000, 10_000));
        }
        Tier::Miri => {
            // (≈ 60 ms per monitored call under Miri: no enumerated boundary unit, a few dozen pairs per shard)
            v.extend(crate::util::split_budget("random", 24, 6));
            v.extend(crate::util::split_budget("triples", 4, 2));
            v.extend(crate::util::split_budget("wide", 4, 2));
        }
    }
    v
}

fn ord_name(o: Ordering) -> &'static str {
    match o { Ordering::Less => "Less", Ordering::Equal => "Equal", Ordering::Greater => "Greater" }
}

/// All comparison operators on one ordered pair, judged against the model
fn check_pair(a: &Dec, b: &Dec, case: &Case, ctx: &mut Ctx) {
    let want = model::cmp_dec(a, b);
    let (x, y) = (a.bd(), b.bd());
    let r = ctx.guard(|| {
        let (rx, ry) = (x.to_ref(), y.to_ref());
        let eq = x == y;
        let ne = x != y;
        let lt = x < y;
        let le = x <= y;
        let gt = x > y;
        let ge = x >= y;
        let c = x.cmp(&y);
        let pc = x.partial_cmp(&y);
        let req = rx == ry;
        let req2 = rx == &y;      // BigDecimalRef == &BigDecimal
        let rc = rx.cmp(&ry);
        let rpc = rx.partial_cmp(&ry);
        let rlt = rx < ry;
        let rle = rx <= ry;
        let mx = std::cmp::max(x.clone(), y.clone());
        let mn = std::cmp::min(x.clone(), y.clone());
        let omx = Ord::max(&x, &y).clone();
        let omn = Ord::min(&x, &y).clone();
        // transformed reference views: |a| vs |b|, -a vs -b, |a| vs a
        let (ax, ay, nx, ny) = (rx.abs(), ry.abs(), -rx, -ry);
        let tr = (ax == ay, ax.cmp(&ay), nx == ny, nx.cmp(&ny), ax == rx, ax.cmp(&rx), (-nx) == rx, (-nx).cmp(&rx));
        (eq, ne, lt, le, gt, ge, c, pc, req, req2, rc, rpc, rlt, rle, mx, mn, omx, omn, tr)
    });
    ctx.more_evals(25);
    match r {
        Err(p) => ctx.fail("compare/panic", case, format!("comparison panicked: {}", p)),
        Ok((eq, ne, lt, le, gt, ge, c, pc, req, req2, rc, rpc, rlt, rle, mx, mn, omx, omn, tr)) => {
            {
                let absd = |d: &Dec| Dec::new(gen::abs(&d.n), d.s);
                let w_abs = model::cmp_dec(&absd(a), &absd(b));
                let w_neg = model::cmp_dec(&a.neg(), &b.neg());
                let w_self = model::cmp_dec(&absd(a), a);
                let ok = tr.0 == (w_abs == Ordering::Equal) && tr.1 == w_abs && tr.2 == (w_neg == Ordering::Equal) && tr.3 == w_neg
                    && tr.4 == (w_self == Ordering::Equal) && tr.5 == w_self && tr.6 && tr.7 == Ordering::Equal;
                ctx.check(ok, "ref-transformed/wrong", case, || format!("comparisons of abs()/neg() reference views disagree with the model: |a|==|b| {} cmp {:?} (want {:?}); -a==-b {} cmp {:?} (want {:?}); |a|==a {} cmp {:?} (want {:?}); -(-a)==a {} cmp {:?} (a={}, b={})",
                    tr.0, tr.1, w_abs, tr.2, tr.3, w_neg, tr.4, tr.5, w_self, tr.6, tr.7, a.tok(), b.tok()));
            }
            ctx.out(&format!("{}{}{}{}{}{}{}{:?}{}{}{}{:?}{}{}", eq, ne, lt, le, gt, ge, ord_name(c), pc, req, req2, ord_name(rc), rpc, rlt, rle));
            let we = want == Ordering::Equal;
            let d = |what: &str, got: String, wanted: String| format!("{}: got {} want {} (a={}, b={})", what, got, wanted, a.tok(), b.tok());
            ctx.check(eq == we, "eq/wrong", case, || d("a == b", eq.to_string(), we.to_string()));
            ctx.check(ne == !we, "ne/wrong", case, || d("a != b", ne.to_string(), (!we).to_string()));
            ctx.check(c == want, "cmp/wrong", case, || d("a.cmp(b)", ord_name(c).into(), ord_name(want).into()));
            ctx.check(pc == Some(want), "partial_cmp/wrong", case, || d("partial_cmp", format!("{:?}", pc), format!("{:?}", Some(want))));
            ctx.check(lt == (want == Ordering::Less), "lt/wrong", case, || d("a < b", lt.to_string(), (want == Ordering::Less).to_string()));
            ctx.check(le == (want != Ordering::Greater), "le/wrong", case, || d("a <= b", le.to_string(), (want != Ordering::Greater).to_string()));
            ctx.check(gt == (want == Ordering::Greater), "gt/wrong", case, || d("a > b", gt.to_string(), (want == Ordering::Greater).to_string()));
            ctx.check(ge == (want != Ordering::Less), "ge/wrong", case, || d("a >= b", ge.to_string(), (want != Ordering::Less).to_string()));
            ctx.check(eq == (c == Ordering::Equal), "eq-cmp/disagree", case, || format!("== says {} but cmp says {} (a={}, b={})", eq, ord_name(c), a.tok(), b.tok()));
            ctx.check(req == we && req2 == we, "ref-eq/wrong", case, || d("ref == ref / ref == &dec", format!("{}/{}", req, req2), we.to_string()));
            ctx.check(rc == want && rpc == Some(want), "ref-cmp/wrong", case, || d("ref.cmp", ord_name(rc).into(), ord_name(want).into()));
            ctx.check(rlt == (want == Ordering::Less) && rle == (want != Ordering::Greater), "ref-lt/wrong", case, || d("ref < / <=", format!("{}/{}", rlt, rle), ord_name(want).into()));
            // max / min pick a value equal to the model's max / min
            let (hi, lo) = if want == Ordering::Less { (b, a) } else { (a, b) };
            ctx.check(model::eq_dec(&Dec::of(&mx), hi) && model::eq_dec(&Dec::of(&omx), hi), "max/wrong", case, || d("max", Dec::of(&mx).tok(), hi.tok()));
            ctx.check(model::eq_dec(&Dec::of(&mn), lo) && model::eq_dec(&Dec::of(&omn), lo), "min/wrong", case, || d("min", Dec::of(&mn).tok(), lo.tok()));
        }
    }
}

/// Both orders (antisymmetry is implied by both being numerically right, and checked directly as well)
fn check_both(a: &Dec, b: &Dec, case: &Case, ctx: &mut Ctx) {
    check_pair(a, b, case, ctx);
    check_pair(b, a, case, ctx);
    let (x, y) = (a.bd(), b.bd());
    if let Ok((c1, c2)) = ctx.guard(|| (x.cmp(&y), y.cmp(&x))) {
        ctx.check(c1 == c2.reverse(), "antisymmetry", case, || format!("cmp(a,b)={} cmp(b,a)={} (a={}, b={})", ord_name(c1), ord_name(c2), a.tok(), b.tok()));
    }
}

fn check_sorted(vals: &[Dec], case: &Case, ctx: &mut Ctx) {
    let mut v: Vec<BigDecimal> = vals.iter().map(|d| d.bd()).collect();
    let r = ctx.guard(|| {
        v.sort();
        v
    });
    match r {
        Err(p) => ctx.fail("sort/panic", case, format!("sort panicked: {}", p)),
        Ok(v) => {
            let ds: Vec<Dec> = v.iter().map(Dec::of).collect();
            let sorted = ds.windows(2).all(|w| model::cmp_dec(&w[0], &w[1]) != Ordering::Greater);
            ctx.check(sorted, "sort/not-sorted", case, || format!("sorted output is not ascending: {:?}", ds.iter().map(|d| d.tok()).collect::<Vec<_>>()));
            // same multiset (by exact representation)
            let mut a: Vec<String> = ds.iter().map(|d| d.tok()).collect();
            let mut b: Vec<String> = vals.iter().map(|d| d.tok()).collect();
            a.sort();
            b.sort();
            ctx.check(a == b, "sort/elements-changed", case, || "sort changed the elements".into());
        }
    }
}

fn limbs_to_big(limbs: &[u32]) -> BigInt {
    BigInt::from_biguint(Sign::Plus, BigUint::new(limbs.to_vec()))
}

/// carry-boundary words: limbs set to floor(2^64/10^k)+{-1,0,1} and floor(2^32/10^k)+..., as the
/// "scaled" operand y, with x = y * 10^k (value-equal twin) and x +- 1
fn boundary_unit(unit: &Unit, r: &mut Rng, ctx: &mut Ctx) {
    for idx in unit.start..unit.start + unit.count {
        let k = (idx / 6) as u32 + 1; // 1..19
        let nlimbs = (idx % 6) as usize + 1; // 1..6
        let p64 = 10u128.pow(k);
        let q64 = ((1u128 << 64) / p64) as u64;
        let q32 = ((1u64 << 32) / (p64.min(u32::MAX as u128) as u64).max(1)) as u32;
        let mut word_choices: Vec<u32> = vec![];
        for off in [-2i64, -1, 0, 1, 2] {
            word_choices.push((q64 as i128 + off as i128) as u32);              // low word of floor(2^64/10^k)+off
            word_choices.push((((q64 as i128) + off as i128) >> 32) as u32);    // high word
            word_choices.push((q32 as i64 + off).max(0) as u32);
        }
        word_choices.extend_from_slice(&[0, 1, u32::MAX, u32::MAX - 1, 0x8000_0000, (u32::MAX as u64 / 10u64.pow(k.min(9))) as u32]);
        // the quotient words of (2^64-1)/10^k: the multiplication + carry overflow boundary
        let qq = (u64::MAX / 10u64.pow(k)) as u32;
        word_choices.extend_from_slice(&[qq, qq.wrapping_add(1), qq.wrapping_sub(1)]);
        // systematic: same word in all limbs (contains the original witness 1844674407 x2, k=10), then random mixes
        let mut limb_sets: Vec<Vec<u32>> = vec![];
        for &w in &word_choices {
            limb_sets.push(vec![w; nlimbs]);
        }
        for _ in 0..40 {
            limb_sets.push((0..nlimbs).map(|_| *r.pick(&word_choices)).collect());
        }
        for limbs in limb_sets {
            let y = limbs_to_big(&limbs);
            if y.is_zero() {
                continue;
            }
            let sc = r.range(-30, 30);
            for neg in [false, true] {
                let sg = |n: BigInt| if neg { -n } else { n };
                let yd = Dec::new(sg(y.clone()), sc);
                let x = &y * pow10(k as u64);
                for delta in [0i32, 1, -1] {
                    let xd = Dec::new(sg(&x + delta), sc + k as i64);
                    let case = Case::new("pair").push(xd.tok()).push(yd.tok());
                    ctx.begin_case(&case);
                    check_both(&xd, &yd, &case, ctx);
                    ctx.end_case(case.hash(), true);
                }
                // limb-level damage to the exact twin (truncated to y's limb count, top limb dropped/added, one limb off)
                for _ in 0..3 {
                    let xv = limb_variant(r, &x, limbs.len());
                    if xv.is_zero() { continue; }
                    let xd = Dec::new(sg(xv), sc + k as i64);
                    let case = Case::new("pair").push(xd.tok()).push(yd.tok());
                    ctx.begin_case(&case);
                    check_both(&xd, &yd, &case, ctx);
                    ctx.end_case(case.hash(), true);
                }
                // the boundary word as the *unscaled* operand against something else of the same length
                let zd = Dec::new(sg(&y + 1u8), sc + k as i64);
                let case = Case::new("pair").push(yd.tok()).push(zd.tok());
                ctx.begin_case(&case);
                check_both(&yd, &zd, &case, ctx);
                ctx.end_case(case.hash(), true);
            }
        }
    }
    ctx.exhaustive_notes.push("C02 boundary words: all k=1..19 x 1..6 limbs x {floor(2^64/10^k), floor(2^32/10^k), floor((2^64-1)/10^k)} +-{0,1,2} in every limb, twin, twin+-1 and limb-damaged twins, both signs".to_string());
}

/// The exact twin `x` (= y * 10^k) with one 32-bit limb dropped, added, truncated or altered
fn limb_variant(r: &mut Rng, x: &BigInt, other_limbs: usize) -> BigInt {
    let sign = x.sign();
    let mut limbs: Vec<u32> = x.magnitude().iter_u32_digits().collect();
    match r.below(6) {
        0 => { limbs.truncate(other_limbs.max(1)); }                 // low limbs only (carry out of the top is lost)
        1 => { if limbs.len() > 1 { limbs.pop(); } }                  // top limb dropped
        2 => { limbs.push(1); }                                       // extra top limb
        3 => { let i = r.below(limbs.len() as u64) as usize; limbs[i] = limbs[i].wrapping_add(1); }
        4 => { let i = r.below(limbs.len() as u64) as usize; limbs[i] = limbs[i].wrapping_sub(1); }
        _ => { let i = r.below(limbs.len() as u64) as usize; limbs[i] ^= 1 << r.below(32); }
    }
    BigInt::from_biguint(if sign == Sign::NoSign { Sign::Plus } else { sign }, BigUint::new(limbs))
}

fn straddle(r: &mut Rng) -> BigInt {
    // operands around the u64 / u128 fast-path limits
    let base: BigInt = match r.below(6) {
        0 => BigInt::from(u64::MAX),
        1 => BigInt::from(u128::MAX),
        2 => BigInt::from(u64::MAX) / pow10(r.below(19)),
        3 => BigInt::from(u128::MAX) / pow10(r.below(38)),
        4 => BigInt::one() << (r.below(200) as usize),
        _ => pow10(r.below(60)),
    };
    base + r.range(-3, 3)
}

fn random_pair(r: &mut Rng, lmax: usize) -> (Dec, Dec) {
    match r.below(10) {
        0..=3 => {
            let a = gen::dec(r, lmax, 400);
            let b = gen::partner(r, &a, lmax, 400, 700);
            (a, b)
        }
        4 | 5 => {
            // twins with gap exactly 1..19 or >= 20
            let a = gen::dec_nonzero(r, lmax, 100);
            let k = if r.bool() { r.range(1, 19) } else { r.range(20, 80) };
            let d = r.range(-1, 1);
            let mut b = Dec::new(&a.n * pow10(k as u64) + d, a.s + k);
            if r.chance(1, 3) {
                // limb-level damage to the twin: what a word-wise comparison loop could overlook
                b.n = limb_variant(r, &(&a.n * pow10(k as u64)), a.n.magnitude().iter_u32_digits().len());
                if b.n.is_zero() { b.n = BigInt::one(); }
            }
            if r.below(8) == 0 { b = b.neg(); }
            if r.bool() { (a, b) } else { (b, a) }
        }
        6 | 7 => {
            let mut n = straddle(r);
            if n.is_zero() { n = BigInt::one(); }
            if r.bool() { n = -n; }
            let a = Dec::new(n, r.range(-40, 40));
            let k = r.range(0, 45);
            let b = match r.below(3) {
                0 => Dec::new(&a.n * pow10(k as u64) + r.range(-1, 1), a.s + k),
                1 => { let mut m = straddle(r); if r.bool() { m = -m; } Dec::new(m, a.s + if r.bool() { k } else { -k }) }
                _ => Dec::new(a.n.clone() + r.range(-1, 1), a.s + r.range(-2, 2)),
            };
            (a, b)
        }
        8 => {
            // zeros of any scale against anything
            let z = Dec::new(BigInt::zero(), r.range(-100_000, 100_000));
            let b = if r.bool() { Dec::new(BigInt::zero(), r.range(i64::MIN / 2, i64::MAX / 2)) } else { gen::dec(r, 40, 50) };
            if r.bool() { (z, b) } else { (b, z) }
        }
        _ => (gen::dec(r, lmax, 2000), gen::dec(r, lmax, 2000)),
    }
}

fn run_unit(unit: &Unit, r: &mut Rng, ctx: &mut Ctx) {
    match unit.kind {
        "boundary" => boundary_unit(unit, r, ctx),
        "small" => {
            // exhaustive: every unordered pair of values n * 10^-s with |n| <= 60, s in -2..=3
            let val = |i: u64| Dec::new(BigInt::from((i / 6) as i64 - 60), (i % 6) as i64 - 2);
            for i in unit.start..unit.start + unit.count {
                let a = val(i);
                for j in i..726 {
                    let b = val(j);
                    let case = Case::new("pair").push(a.tok()).push(b.tok());
                    ctx.begin_case(&case);
                    check_both(&a, &b, &case, ctx);
                    ctx.end_case(case.hash(), false);
                    ctx.enumerated_nontrivial += 1;
                }
            }
            if unit.start == 0 {
                ctx.exhaustive_notes.push("C02 small scope: every pair of values n*10^-s with |n| <= 60, s in -2..3 (263 901 pairs, both orders, 25 comparison forms)".into());
            }
        }
        "random" => {
            for i in 0..unit.count {
                let lmax = if (unit.start + i) % 50 == 0 { 1500 } else if i % 5 == 0 { 200 } else { 45 };
                let (a, b) = random_pair(r, lmax);
                let case = Case::new("pair").push(a.tok()).push(b.tok());
                check_case(&case, ctx);
            }
        }
        "wide" => {
            for _ in 0..unit.count {
                // scales whose difference exceeds 2^63, or is huge
                let a = Dec::new(gen::int_nonzero(r, 30), if r.bool() { i64::MAX - r.range(0, 5) } else { r.range(i64::MAX / 2, i64::MAX) });
                let b = Dec::new(gen::int_any(r, 30, 10), if r.bool() { i64::MIN + r.range(0, 5) } else { r.range(i64::MIN, i64::MIN / 2) });
                let (a, b) = if r.bool() { (a, b) } else { (b, a) };
                let case = Case::new("pair").push(a.tok()).push(b.tok());
                check_case(&case, ctx);
            }
        }
        "triples" => {
            for _ in 0..unit.count {
                // chains of twins / neighbours: transitivity and sort
                let a = gen::dec(r, 60, 60);
                let mut vals = vec![a.clone()];
                let n = 2 + r.below(5);
                for _ in 0..n {
                    let base = r.pick(&vals).clone();
                    vals.push(gen::partner(r, &base, 60, 60, 50));
                }
                let mut case = Case::new("chain");
                for v in &vals { case = case.push(v.tok()); }
                check_case(&case, ctx);
            }
        }
        _ => {}
    }
}

fn replay(case: &Case, ctx: &mut Ctx) {
    check_case(case, ctx);
}

pub fn check_case(case: &Case, ctx: &mut Ctx) {
    match case.kind() {
        "pair" => {
            let (a, b) = match (Dec::from_tok(case.arg(0)), Dec::from_tok(case.arg(1))) {
                (Some(a), Some(b)) => (a, b),
                _ => return,
            };
            ctx.begin_case(case);
            check_both(&a, &b, case, ctx);
            let nontrivial = !a.is_zero() && !b.is_zero() && (a.n.sign() == b.n.sign()) && a.s != b.s;
            ctx.end_case(case.hash(), nontrivial);
            if ctx.want_sample() && nontrivial {
                ctx.sample(case, format!("cmp = {}, all 17 comparison forms agree with the model in both orders", ord_name(model::cmp_dec(&a, &b))));
            }
        }
        "chain" => {
            let vals: Vec<Dec> = case.toks[1..].iter().filter_map(|t| Dec::from_tok(t)).collect();
            if vals.len() < 2 { return; }
            ctx.begin_case(case);
            // transitivity on every triple, decided by the crate's own cmp
            let bds: Vec<BigDecimal> = vals.iter().map(|d| d.bd()).collect();
            let n = bds.len();
            let r = ctx.guard(|| {
                let mut m = vec![vec![Ordering::Equal; n]; n];
                for i in 0..n { for j in 0..n { m[i][j] = bds[i].cmp(&bds[j]); } }
                m
            });
            ctx.more_evals((n * n) as u64);
            match r {
                Err(p) => ctx.fail("compare/panic", case, format!("cmp panicked: {}", p)),
                Ok(m) => {
                    let mut ok = true;
                    for i in 0..n { for j in 0..n { for k in 0..n {
                        let le = |o: Ordering| o != Ordering::Greater;
                        if le(m[i][j]) && le(m[j][k]) && !le(m[i][k]) { ok = false; }
                        if m[i][j] == Ordering::Equal && m[j][k] == Ordering::Equal && m[i][k] != Ordering::Equal { ok = false; }
                    } } }
                    ctx.check(ok, "transitivity", case, || format!("cmp is not transitive on {:?}", vals.iter().map(|d| d.tok()).collect::<Vec<_>>()));
                    for i in 0..n { for j in 0..n {
                        let want = model::cmp_dec(&vals[i], &vals[j]);
                        ctx.check(m[i][j] == want, "cmp/wrong", case, || format!("cmp({}, {}) = {} want {}", vals[i].tok(), vals[j].tok(), ord_name(m[i][j]), ord_name(want)));
                    } }
                    ctx.out(&format!("{:?}", m));
                }
            }
            check_sorted(&vals, case, ctx);
            ctx.end_case(case.hash(), true);
        }
        _ => {}
    }
}

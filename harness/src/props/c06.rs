//! C06 — rounding to a scale obeys each of the seven rounding modes

use crate::gen::{self, ndigits, Dec, Rng};
use crate::model::{self, mode_from_name, mode_name, rounds_away, Tail, MODES};
use crate::monitor::{Case, Ctx};
use crate::{PropDef, Tier, Unit};
use bigdecimal::{BigDecimal, RoundingMode};
use num_bigint::{BigInt, Sign};
use num_traits::{ToPrimitive, Zero};
use std::num::NonZeroU8;

pub fn def() -> PropDef {
    PropDef {
        id: "C06",
        plan,
        run_unit,
        replay,
        required_probes: &[
            "Wsr_Zero", "Wsr_Equal", "Wsr_Extend", "Wsr_RoundAtLead", "Wsr_RoundLeftOfLead", "Wsr_RoundInside", "Wsr_Carry", "Wsr_CarryNewDigit",
            "WithScale_Zero", "WithScale_Up", "WithScale_Down", "WithScale_Equal",
        ],
        rule: "exhaustive small scope: every unscaled value |n| < N (N = 10^4 quick, 10^5 thorough; zero included, both signs) x scale -3..8 x every target scale within 4 of either end of the digit string x 7 modes, judged by an independent i128 model (result scale exact, integer = prescribed neighbour, extension exact, with_scale == Down, round(n) == default mode); all 4200 arguments of round_pair and round_u32 at positions 1..8; exhaustive machine-word boundaries: 192 unscaled integers +-(2^k + d), +-(10^k + d), floor(2^64/10^j) + d, 2^64 - 10^19 + d x scales 0, 5, 19, 20 x 0..23 dropped places x 7 modes; sticky-information family: discarded tails that start with 5 or 0 and continue with up to 1200 arbitrary digits (random, one digit repeated 2^j times, a single non-zero digit far down, all zeros); seeded decimals up to 3000 digits with tie / near-tie tails, all-nines carries, targets left of the leading digit, zeros. distinct = distinct (value, scale, target, mode) tuples (enumerated ones are distinct by construction); non-trivial = target scale below the input scale of a non-zero value (digits are actually discarded)",
    }
}

fn small_bound(tier: Tier) -> i64 {
    match tier { Tier::Quick => 10_000, Tier::Thorough => 100_000, Tier::Miri => 12 }
}

fn plan(tier: Tier) -> Vec<Unit> {
    let n = small_bound(tier) as u64;
    match tier {
        Tier::Quick => {
            let mut v = crate::util::split_budget_param("small", 2 * n - 1, 100, n as i64);
            v.push(Unit { kind: "pair-table", start: 0, count: 1, param: 0 });
            v.extend(crate::util::split_budget("random", 300_000, 3_000));
            v.extend(crate::util::split_budget("words", gen::word_values().len() as u64, 8));
            v.extend(crate::util::split_budget("sticky", 100_000, 2_000));
            v
        }
        Tier::Thorough => {
            let mut v = crate::util::split_budget_param("small", 2 * n - 1, 500, n as i64);
            v.push(Unit { kind: "pair-table", start: 0, count: 1, param: 0 });
            v.extend(crate::util::split_budget("random", 60_000_000, 20_000));
            v.extend(crate::util::split_budget("words", gen::word_values().len() as u64, 8));
            v.extend(crate::util::split_budget("sticky", 10_000_000, 10_000));
            v
        }
        Tier::Miri => {
            let mut v = crate::util::split_budget_param("small", 2 * n - 1, 12, n as i64);
            v.extend(crate::util::split_budget("random", 6, 3));
            v
        }
    }
}

fn default_mode() -> RoundingMode {
    crate::param("mode").and_then(|m| mode_from_name(&m)).unwrap_or(RoundingMode::HalfEven)
}

fn digits_i(n: i128) -> i64 {
    let mut m = n.abs();
    let mut d = 1;
    while m >= 10 { m /= 10; d += 1; }
    d
}

/// independent small-scope model in machine integers
fn small_round(n: i128, s: i64, t: i64, mode: RoundingMode) -> i128 {
    if t >= s {
        return n * 10i128.pow((t - s) as u32);
    }
    let k = (s - t) as u32;
    let p = 10i128.pow(k);
    let mag = n.abs();
    let (q, r) = (mag / p, mag % p);
    let tail = if r == 0 { Tail::Zero } else if 2 * r < p { Tail::BelowHalf } else if 2 * r == p { Tail::Half } else { Tail::AboveHalf };
    let q = if rounds_away(mode, n < 0, q % 2 == 1, tail) { q + 1 } else { q };
    if n < 0 { -q } else { q }
}

fn run_small(unit: &Unit, ctx: &mut Ctx, bound: i64) {
    let dm = default_mode();
    let range_case = Case::new("small-range").push(unit.start).push(unit.count).push(bound);
    ctx.begin_case(&range_case);
    let mut nontrivial = 0u64;
    for idx in unit.start..unit.start + unit.count {
        let n = idx as i64 - (bound - 1);
        let d = digits_i(n as i128);
        for s in -3i64..=8 {
            let b = BigDecimal::new(BigInt::from(n), s);
            // targets within 4 of either end of the digit string
            let lo_end = s - d; // scale that would drop every digit
            let mut targets: Vec<i64> = (lo_end - 4..=lo_end + 4).chain(s - 4..=s + 4).collect();
            targets.sort();
            targets.dedup();
            for &t in &targets {
                for &mode in MODES.iter() {
                    let want = small_round(n as i128, s, t, mode);
                    let r = ctx.guard(|| b.with_scale_round(t, mode));
                    match r {
                        Err(p) => {
                            let c = Case::new("wsr").push(Dec::new(BigInt::from(n), s).tok()).push(t).push(mode_name(mode));
                            ctx.fail("with_scale_round/panic", &c, format!("panicked: {}", p));
                        }
                        Ok(v) => {
                            let (gi, gs) = v.as_bigint_and_scale();
                            let ok = gs == t && gi.to_i128() == Some(want);
                            if ok {
                                ctx.ok();
                            } else {
                                let c = Case::new("wsr").push(Dec::new(BigInt::from(n), s).tok()).push(t).push(mode_name(mode));
                                ctx.fail("with_scale_round/wrong", &c, format!("({}e{}).with_scale_round({}, {}) = {}e{} want {}e{}", n, -s, t, mode_name(mode), gi, -gs, want, -t));
                            }
                            ctx.out_bd(&v);
                        }
                    }
                    if t < s && n != 0 { nontrivial += 1; }
                }
                // with_scale == Down, round == default mode
                let r = ctx.guard(|| (b.with_scale(t), b.round(t)));
                ctx.more_evals(1);
                match r {
                    Err(p) => {
                        let c = Case::new("ws").push(Dec::new(BigInt::from(n), s).tok()).push(t);
                        ctx.fail("with_scale/panic", &c, format!("with_scale/round panicked: {}", p));
                    }
                    Ok((ws, rd)) => {
                        let wd = small_round(n as i128, s, t, RoundingMode::Down);
                        let wr = small_round(n as i128, s, t, dm);
                        let (a, asc) = ws.as_bigint_and_scale();
                        let (b2, bsc) = rd.as_bigint_and_scale();
                        if a.to_i128() == Some(wd) && asc == t { ctx.ok(); } else {
                            let c = Case::new("ws").push(Dec::new(BigInt::from(n), s).tok()).push(t);
                            ctx.fail("with_scale/not-round-down", &c, format!("({}e{}).with_scale({}) = {}e{} want {}e{}", n, -s, t, a, -asc, wd, -t));
                        }
                        if b2.to_i128() == Some(wr) && bsc == t { ctx.ok(); } else {
                            let c = Case::new("round").push(Dec::new(BigInt::from(n), s).tok()).push(t);
                            ctx.fail("round/not-default-mode", &c, format!("({}e{}).round({}) = {}e{} want {}e{} ({})", n, -s, t, b2, -bsc, wr, -t, mode_name(dm)));
                        }
                    }
                }
            }
        }
    }
    ctx.enumerated_nontrivial += nontrivial;
    ctx.end_case(range_case.hash(), false);
    if unit.start == 0 {
        ctx.exhaustive_notes.push(format!("C06: all |n| < {} x scales -3..8 x targets within 4 of either end of the digits x 7 modes (with_scale_round), plus with_scale and round on the same grid", bound));
    }
}

fn sign_name(s: Sign) -> &'static str { match s { Sign::Plus => "Plus", Sign::Minus => "Minus", Sign::NoSign => "NoSign" } }

fn run_pair_table(ctx: &mut Ctx) {
    let case = Case::new("pair-table");
    ctx.begin_case(&case);
    let mut n = 0u64;
    for &mode in MODES.iter() {
        for sign in [Sign::Plus, Sign::Minus, Sign::NoSign] {
            for lhs in 0u8..10 {
                for rhs in 0u8..10 {
                    for tz in [true, false] {
                        // value = lhs + rhs/10 (+ epsilon if there is a non-zero tail)
                        let tail = if rhs == 0 && tz { Tail::Zero }
                            else if rhs < 5 { Tail::BelowHalf }
                            else if rhs == 5 && tz { Tail::Half }
                            else { Tail::AboveHalf };
                        let want = if rounds_away(mode, sign == Sign::Minus, lhs % 2 == 1, tail) { lhs + 1 } else { lhs };
                        let r = ctx.guard(|| mode.round_pair(sign, (lhs, rhs), tz));
                        let c = || Case::new("round_pair").push(mode_name(mode)).push(sign_name(sign)).push(lhs).push(rhs).push(tz);
                        match r {
                            Err(p) => ctx.fail("round_pair/panic", &c(), format!("panicked: {}", p)),
                            Ok(g) => {
                                ctx.out_u64(g as u64);
                                if g == want { ctx.ok(); } else {
                                    ctx.fail("round_pair/wrong", &c(), format!("{}.round_pair({}, ({}, {}), {}) = {} want {}", mode_name(mode), sign_name(sign), lhs, rhs, tz, g, want));
                                }
                            }
                        }
                        n += 1;
                    }
                }
            }
        }
    }
    // round_u32: positions 1..8, values whose rounded result fits u32
    let vals: Vec<u32> = {
        let mut v: Vec<u32> = vec![0, 1, 4, 5, 6, 9, 10, 14, 15, 16, 25, 35, 45, 50, 55, 95, 99, 100, 149, 150, 151, 250, 350, 995, 999, 1000, 4999, 5000, 5001, 9995, 9999, 12345, 15000, 25000, 99999, 823418, 100205, 499_999_999, 500_000_000, 500_000_001, 123_456_789, 999_999_999, 1_050_000_000, 2_147_483_647, 3_999_999_999];
        let mut r = Rng::new(7, 7, 7);
        for _ in 0..600 { v.push(r.below(4_000_000_000) as u32); }
        v
    };
    for &mode in MODES.iter() {
        for sign in [Sign::Plus, Sign::Minus] {
            for at in 1u8..=8 {
                for &value in &vals {
                    for tz in [true, false] {
                        let unit = 10u64.pow(at as u32);
                        let (q, rem) = (value as u64 / unit, value as u64 % unit);
                        let tail = if rem == 0 && tz { Tail::Zero }
                            else if 2 * rem < unit { Tail::BelowHalf }
                            else if 2 * rem == unit && tz { Tail::Half }
                            else { Tail::AboveHalf };
                        let wq = if rounds_away(mode, sign == Sign::Minus, q % 2 == 1, tail) { q + 1 } else { q };
                        let want = wq * unit;
                        if want > u32::MAX as u64 { continue; }
                        let r = ctx.guard(|| mode.round_u32(NonZeroU8::new(at).unwrap(), sign, value, tz));
                        let c = || Case::new("round_u32").push(mode_name(mode)).push(sign_name(sign)).push(at).push(value).push(tz);
                        match r {
                            Err(p) => ctx.fail("round_u32/panic", &c(), format!("panicked: {}", p)),
                            Ok(g) => {
                                ctx.out_u64(g as u64);
                                if g as u64 == want { ctx.ok(); } else {
                                    ctx.fail("round_u32/wrong", &c(), format!("{}.round_u32({}, {}, {}, {}) = {} want {}", mode_name(mode), at, sign_name(sign), value, tz, g, want));
                                }
                            }
                        }
                        n += 1;
                    }
                }
            }
        }
    }
    ctx.enumerated_nontrivial += n;
    ctx.end_case(case.hash(), false);
    ctx.exhaustive_notes.push("C06: all 4200 arguments of RoundingMode::round_pair (7 modes x 3 signs x 10 x 10 digits x tail flag)".into());
}

pub fn gen_target(r: &mut Rng, d: &Dec) -> i64 {
    let nd = ndigits(&d.n) as i64;
    match r.below(6) {
        0 => d.s - nd + r.range(-4, 4),          // around the leading digit
        1 => d.s + r.range(-4, 4),               // around the last digit
        2 => d.s - r.range(0, nd.max(1)),        // inside
        3 => d.s - nd - r.range(0, 2000),        // far left of the leading digit
        4 => d.s + r.range(0, 3000),             // extension
        _ => r.range(d.s - nd - 3, d.s + 3),
    }
}

fn run_unit(unit: &Unit, r: &mut Rng, ctx: &mut Ctx) {
    match unit.kind {
        "small" => run_small(unit, ctx, unit.param),
        "pair-table" => run_pair_table(ctx),
        "words" => {
            // exhaustive: unscaled integers on the machine-word boundaries x scales {0, 5, 19, 20} x every number of
            // dropped places 0..=23 x 7 modes
            let w = gen::word_values();
            for idx in unit.start..unit.start + unit.count {
                let n = &w[idx as usize % w.len()];
                for s in [0i64, 5, 19, 20] {
                    for drop in 0i64..=23 {
                        for &mode in MODES.iter() {
                            let case = Case::new("wsr").push(Dec::new(n.clone(), s).tok()).push(s - drop).push(mode_name(mode));
                            check_case(&case, ctx);
                        }
                    }
                }
            }
            if unit.start == 0 {
                ctx.exhaustive_notes.push(format!("C06 word boundaries: {} unscaled integers +-(2^k + d), +-(10^k + d), floor(2^64/10^j) + d, 2^64 - 10^19 + d (d in -1..1) x scales 0, 5, 19, 20 x 0..23 dropped places x 7 modes", w.len()));
            }
        }
        "sticky" => {
            // the discarded tail starts with 5 or 0 and goes on with a long run of arbitrary digits: whether ANY of
            // them is non-zero decides ties and the directed modes.  Tails of random digits, of one digit repeated
            // 2^j times (8 x 32, 4 x 64, 2 x 128, 1 x 256: digit sums that are multiples of 256), of a single non-zero
            // digit hundreds of places down, and all zeros (a true tie / an exact value)
            for _ in 0..unit.count {
                let hl = 1 + r.below(12) as usize;
                let head = gen::digit_string(r, hl);
                let first = match r.below(4) { 0 | 1 => '5', 2 => '0', _ => (b'0' + r.below(10) as u8) as char };
                let tl = match r.below(3) { 0 => 1 + r.below(40) as usize, 1 => 20 + r.below(300) as usize, _ => 1 + r.below(1200) as usize };
                let tail: String = match r.below(6) {
                    0 => (0..tl).map(|_| (b'0' + r.below(10) as u8) as char).collect(),
                    1 => { let d = *r.pick(&['1', '2', '4', '8']); let n = *r.pick(&[16usize, 32, 64, 128, 256, 512]); std::iter::repeat(d).take(n).collect() }
                    2 => { let mut t = "0".repeat(tl); let at = r.below(tl as u64) as usize; t.replace_range(at..at + 1, &((b'1' + r.below(9) as u8) as char).to_string()); t }
                    3 => "0".repeat(tl),
                    4 => { let d = (b'1' + r.below(9) as u8) as char; let n = 1 + r.below(600) as usize; let mut t: String = std::iter::repeat(d).take(n).collect(); t.push_str(&"0".repeat(r.below(5) as usize)); t }
                    _ => gen::digit_string(r, tl),
                };
                let n: BigInt = format!("{}{}{}", head, first, tail).parse().unwrap();
                let s = r.range(-20, 40) + 1 + tail.len() as i64;
                let d = Dec::new(if r.bool() { -n } else { n }, s);
                let t = s - 1 - tail.len() as i64;
                let mode = *r.pick(&MODES);
                let case = Case::new("wsr").push(d.tok()).push(t).push(mode_name(mode));
                check_case(&case, ctx);
            }
        }
        "random" => {
            for i in 0..unit.count {
                let lm = if i % 20 == 0 { 3000 } else if i % 4 == 0 { 300 } else { 40 };
                let d = gen::dec(r, lm, 3000);
                let t = gen_target(r, &d);
                let mode = *r.pick(&MODES);
                let case = Case::new("wsr").push(d.tok()).push(t).push(mode_name(mode));
                check_case(&case, ctx);
            }
        }
        _ => {}
    }
}

fn replay(case: &Case, ctx: &mut Ctx) {
    match case.kind() {
        "small-range" => {
            let u = Unit { kind: "small", start: case.arg(0).parse().unwrap_or(0), count: case.arg(1).parse().unwrap_or(0), param: case.arg(2).parse().unwrap_or(2000) };
            run_small(&u, ctx, case.arg(2).parse().unwrap_or(2000));
        }
        "pair-table" | "round_pair" | "round_u32" => run_pair_table(ctx),
        _ => check_case(case, ctx),
    }
}

pub fn check_case(case: &Case, ctx: &mut Ctx) {
    let d = match Dec::from_tok(case.arg(0)) { Some(d) => d, None => return };
    let t: i64 = match case.arg(1).parse() { Ok(t) => t, Err(_) => return };
    ctx.begin_case(case);
    let b = d.bd();
    let modes: Vec<RoundingMode> = match case.kind() {
        "wsr" => vec![mode_from_name(case.arg(2)).unwrap_or(RoundingMode::HalfEven)],
        _ => vec![],
    };
    for mode in modes {
        let want = model::round_to_scale(&d, t, mode);
        match ctx.guard(|| b.with_scale_round(t, mode)) {
            Err(p) => ctx.fail("with_scale_round/panic", case, format!("panicked: {}", p)),
            Ok(v) => {
                ctx.out_bd(&v);
                let g = Dec::of(&v);
                let held = ctx.check(g == want, "with_scale_round/wrong", case, || format!("({}).with_scale_round({}, {}) = {} want {}", d.tok(), t, mode_name(mode), g.tok(), want.tok()));
                if ctx.want_event() && crate::gen::ndigits(&d.n) < 400 && (t as i128 - d.s as i128).abs() < 2000 {
                    ctx.log("with_scale_round", &[d.tok()], serde_json::json!({"scale": t, "mode": mode_name(mode)}), g.tok(), held);
                }
            }
        }
    }
    let dm = default_mode();
    match ctx.guard(|| (b.with_scale(t), b.round(t))) {
        Err(p) => ctx.fail("with_scale/panic", case, format!("with_scale/round panicked: {}", p)),
        Ok((ws, rd)) => {
            ctx.more_evals(1);
            let wd = model::round_to_scale(&d, t, RoundingMode::Down);
            let wr = model::round_to_scale(&d, t, dm);
            let (g1, g2) = (Dec::of(&ws), Dec::of(&rd));
            ctx.check(g1 == wd, "with_scale/not-round-down", case, || format!("({}).with_scale({}) = {} want {}", d.tok(), t, g1.tok(), wd.tok()));
            ctx.check(g2 == wr, "round/not-default-mode", case, || format!("({}).round({}) = {} want {} ({})", d.tok(), t, g2.tok(), wr.tok(), mode_name(dm)));
        }
    }
    let nontrivial = t < d.s && !d.n.is_zero();
    ctx.end_case(case.hash(), nontrivial);
    if ctx.want_sample() && nontrivial {
        ctx.sample(case, format!("result {} equals the model's neighbour; with_scale == Down and round == {} also hold", model::round_to_scale(&d, t, mode_from_name(case.arg(2)).unwrap_or(RoundingMode::HalfEven)).tok(), mode_name(dm)));
    }
}

//! C01 — addition, subtraction and multiplication are exact for every operand form

use crate::gen::{self, Dec, Rng};
use crate::model;
use crate::monitor::{Case, Ctx};
use crate::{PropDef, Tier, Unit};
use bigdecimal::{BigDecimal, Signed};
use num_bigint::BigInt;
use num_traits::Zero;

pub fn def() -> PropDef {
    PropDef {
        id: "C01",
        plan,
        run_unit,
        replay,
        required_probes: &[
            "Add_RhsZero", "Add_LhsZero", "Add_Aligned", "Add_Unaligned",
            "AddRef_RhsZero", "AddRef_LhsZero", "AddRef_Aligned", "AddRef_Unaligned",
            "AddAssign_Less", "AddAssign_Greater", "AddAssign_Equal",
            "SetScale_UpU64", "SetScale_UpBig", "TenPow_Lt20", "TenPow_Lt590", "TenPow_Recursive",
            "Tows_UpU64", "Tows_UpBig", "WithScale_Up",
        ],
        rule: "exhaustive small scope: every ordered pair of values n*10^-s with |n| <= 25, s in -2..2 through all call shapes; then seeded pairs (a, partner(a)): digit-string families (random, all-nines, 10^k, d00..0d, tie tails, mostly-9/0) of 1..3000 digits, scales within +-10^4, scale gaps 0..45 / 19,20,21 / 255..257 / 589..591 / up to 10^4, twins, near twins, zeros with scale, ones written 1.00; every case runs ~135 call shapes (9+9+4 decimal forms and all assign forms in both operand orders, 36 BigInt forms, 32 forms x 6..9 values of one primitive type chosen by the case, 13 derived ops) each compared by value with the exact model. distinct = distinct (a, b, selector) triples; non-trivial = both operands non-zero",
    }
}

fn plan(tier: Tier) -> Vec<Unit> {
    match tier {
        Tier::Quick => { let mut v = crate::util::split_budget("pairs", 3_200, 100); v.extend(crate::util::split_budget("small", 255, 5)); v }
        Tier::Thorough => { let mut v = crate::util::split_budget("pairs", 160_000, 250); v.extend(crate::util::split_budget("small", 255, 3)); v }
        Tier::Miri => crate::util::split_budget("pairs", 4, 2),
    }
}

fn lmax(unit: &Unit, idx: u64) -> usize {
    // a share of long operands; most are short so that many pairs are run
    match (unit.start + idx) % 16 {
        0 => 3000,
        1 | 2 => 700,
        _ => 120,
    }
}

fn run_unit(unit: &Unit, r: &mut Rng, ctx: &mut Ctx) {
    if unit.kind == "small" {
        // exhaustive: every ordered pair of values n*10^-s with |n| <= 25, s in -2..=2, all ~135 call shapes
        let val = |i: u64| Dec::new(BigInt::from((i / 5) as i64 - 25), (i % 5) as i64 - 2);
        for i in unit.start..unit.start + unit.count {
            for j in 0..255u64 {
                let case = Case::new("pair").push(val(i).tok()).push(val(j).tok()).push(i * 255 + j);
                check_case(&case, ctx);
            }
        }
        if unit.start == 0 {
            ctx.exhaustive_notes.push("C01 small scope: every ordered pair of values n*10^-s with |n| <= 25, s in -2..2 (65 025 pairs x ~135 call shapes; the primitive type rotates with the pair index)".into());
        }
        return;
    }
    for i in 0..unit.count {
        let lm = lmax(unit, i);
        let a = match r.below(16) {
            // ones written 1.00, powers of ten with any scale, zeros with any scale as the FIRST operand too
            0 => { let k = r.range(0, 40); Dec::new(gen::pow10(k as u64) * if r.bool() { 1 } else { -1 }, k) }
            1 => Dec::new(gen::pow10(r.below(60)), r.range(-10_000, 10_000)),
            2 => Dec::new(BigInt::zero(), r.range(-10_000, 10_000)),
            3 => {
                // 10^s + m * 2^(32 j): equal to 1.00..0 in its low 32-bit words only
                let s = r.range(0, 25);
                let j = 1 + r.below(4) as usize;
                let m = BigInt::from(1 + r.below(1000));
                let n = gen::pow10(s as u64) + (m << (32 * j));
                Dec::new(if r.chance(1, 4) { -n } else { n }, s)
            }
            _ => gen::dec(r, lm, 10_000),
        };
        let b = gen::partner(r, &a, lm, 10_000, 10_000);
        let sel = r.next();
        let case = Case::new("pair").push(a.tok()).push(b.tok()).push(sel);
        check_case(&case, ctx);
    }
}

fn replay(case: &Case, ctx: &mut Ctx) {
    check_case(case, ctx);
}

fn judge(ctx: &mut Ctx, case: &Case, op: &str, form: &str, r: Result<BigDecimal, String>, want: &Dec) {
    match r {
        Ok(v) => {
            ctx.out_bd(&v);
            let got = Dec::of(&v);
            let held = model::eq_dec(&got, want);
            if (form == "&BigDecimal + &BigDecimal" || form == "&BigDecimal - &BigDecimal" || form == "&BigDecimal * &BigDecimal") && ctx.want_event() && case.arg(0).len() + case.arg(1).len() < 600 {
                // logged once per case and operation (operand order as in the first pass)
                ctx.log(op, &[case.arg(0).to_string(), case.arg(1).to_string()], serde_json::json!({"form": form}), got.tok(), held);
            }
            if held {
                ctx.ok();
            } else {
                ctx.fail(&format!("{}/value-mismatch", op), case, format!("form `{}`: got {} want {}", form, got.tok(), want.tok()));
            }
        }
        Err(p) => ctx.fail(&format!("{}/panic", op), case, format!("form `{}` panicked: {}", form, p)),
    }
}

macro_rules! form {
    ($ctx:ident, $case:ident, $op:literal, $name:expr, $want:expr, $e:expr) => {{
        let r = $ctx.guard(|| $e);
        judge($ctx, $case, $op, $name, r, $want);
    }};
}

macro_rules! prim_forms {
    ($ctx:ident, $case:ident, $a:ident, $ad:ident, $t:ty, $vals:expr) => {{
        let tn = stringify!($t);
        for v in $vals {
            let v: $t = v;
            let vd = Dec::new(BigInt::from(v), 0);
            let sum = model::add($ad, &vd);
            let d1 = model::sub($ad, &vd);
            let d2 = model::sub(&vd, $ad);
            let prd = model::mul($ad, &vd);
            let f = |s: &str| format!("{} [t={} v={}]", s, tn, v);
            form!($ctx, $case, "add-prim", &f("BigDecimal + t"), &sum, $a.clone() + v);
            form!($ctx, $case, "add-prim", &f("&BigDecimal + t"), &sum, &$a + v);
            form!($ctx, $case, "add-prim", &f("BigDecimalRef + t"), &sum, $a.to_ref() + v);
            form!($ctx, $case, "add-prim", &f("t + BigDecimal"), &sum, v + $a.clone());
            form!($ctx, $case, "add-prim", &f("t + &BigDecimal"), &sum, v + &$a);
            form!($ctx, $case, "add-prim", &f("BigDecimal + &t"), &sum, $a.clone() + &v);
            form!($ctx, $case, "add-prim", &f("&BigDecimal + &t"), &sum, &$a + &v);
            form!($ctx, $case, "add-prim", &f("BigDecimalRef + &t"), &sum, $a.to_ref() + &v);
            form!($ctx, $case, "add-prim", &f("&t + BigDecimal"), &sum, &v + $a.clone());
            form!($ctx, $case, "add-prim", &f("&t + &BigDecimal"), &sum, &v + &$a);
            form!($ctx, $case, "add-prim", &f("BigDecimal += t"), &sum, { let mut x = $a.clone(); x += v; x });
            form!($ctx, $case, "add-prim", &f("BigDecimal += &t"), &sum, { let mut x = $a.clone(); x += &v; x });

            form!($ctx, $case, "sub-prim", &f("BigDecimal - t"), &d1, $a.clone() - v);
            form!($ctx, $case, "sub-prim", &f("&BigDecimal - t"), &d1, &$a - v);
            form!($ctx, $case, "sub-prim", &f("t - BigDecimal"), &d2, v - $a.clone());
            form!($ctx, $case, "sub-prim", &f("t - &BigDecimal"), &d2, v - &$a);
            form!($ctx, $case, "sub-prim", &f("BigDecimal - &t"), &d1, $a.clone() - &v);
            form!($ctx, $case, "sub-prim", &f("&BigDecimal - &t"), &d1, &$a - &v);
            form!($ctx, $case, "sub-prim", &f("&t - BigDecimal"), &d2, &v - $a.clone());
            form!($ctx, $case, "sub-prim", &f("&t - &BigDecimal"), &d2, &v - &$a);
            form!($ctx, $case, "sub-prim", &f("BigDecimal -= t"), &d1, { let mut x = $a.clone(); x -= v; x });
            form!($ctx, $case, "sub-prim", &f("BigDecimal -= &t"), &d1, { let mut x = $a.clone(); x -= &v; x });

            form!($ctx, $case, "mul-prim", &f("BigDecimal * t"), &prd, $a.clone() * v);
            form!($ctx, $case, "mul-prim", &f("&BigDecimal * t"), &prd, &$a * v);
            form!($ctx, $case, "mul-prim", &f("t * BigDecimal"), &prd, v * $a.clone());
            form!($ctx, $case, "mul-prim", &f("t * &BigDecimal"), &prd, v * &$a);
            form!($ctx, $case, "mul-prim", &f("BigDecimal * &t"), &prd, $a.clone() * &v);
            form!($ctx, $case, "mul-prim", &f("&BigDecimal * &t"), &prd, &$a * &v);
            form!($ctx, $case, "mul-prim", &f("&t * BigDecimal"), &prd, &v * $a.clone());
            form!($ctx, $case, "mul-prim", &f("&t * &BigDecimal"), &prd, &v * &$a);
            form!($ctx, $case, "mul-prim", &f("BigDecimal *= t"), &prd, { let mut x = $a.clone(); x *= v; x });
            form!($ctx, $case, "mul-prim", &f("BigDecimal *= &t"), &prd, { let mut x = $a.clone(); x *= &v; x });
        }
    }};
}

macro_rules! signed_vals {
    ($t:ty, $sel:expr) => {{
        let wide: u128 = ($sel as u128).wrapping_mul(0x1_0000_0001_0000_0001u128);
        let shift = ((($sel >> 3) % 8) as u32) * (<$t>::BITS / 8);
        vec![0 as $t, 1, -1, 2, -2, <$t>::MIN, <$t>::MAX, (wide >> 8) as $t, ((wide >> 8) as $t) >> shift]
    }};
}
macro_rules! unsigned_vals {
    ($t:ty, $sel:expr) => {{
        let wide: u128 = ($sel as u128).wrapping_mul(0x1_0000_0001_0000_0001u128);
        let shift = ((($sel >> 3) % 8) as u32) * (<$t>::BITS / 8);
        vec![0 as $t, 1, 2, <$t>::MAX, (wide >> 8) as $t, ((wide >> 8) as $t) >> shift]
    }};
}

fn decimal_forms(ctx: &mut Ctx, case: &Case, a: &BigDecimal, b: &BigDecimal, ad: &Dec, bd: &Dec) {
    let sum = model::add(ad, bd);
    let dif = model::sub(ad, bd);
    let prd = model::mul(ad, bd);

    form!(ctx, case, "add", "BigDecimal + BigDecimal", &sum, a.clone() + b.clone());
    form!(ctx, case, "add", "BigDecimal + &BigDecimal", &sum, a.clone() + b);
    form!(ctx, case, "add", "BigDecimal + BigDecimalRef", &sum, a.clone() + b.to_ref());
    form!(ctx, case, "add", "&BigDecimal + BigDecimal", &sum, a + b.clone());
    form!(ctx, case, "add", "&BigDecimal + &BigDecimal", &sum, a + b);
    form!(ctx, case, "add", "&BigDecimal + BigDecimalRef", &sum, a + b.to_ref());
    form!(ctx, case, "add", "BigDecimalRef + BigDecimal", &sum, a.to_ref() + b.clone());
    form!(ctx, case, "add", "BigDecimalRef + &BigDecimal", &sum, a.to_ref() + b);
    form!(ctx, case, "add", "BigDecimalRef + BigDecimalRef", &sum, a.to_ref() + b.to_ref());
    form!(ctx, case, "add", "BigDecimal += BigDecimal", &sum, { let mut x = a.clone(); x += b.clone(); x });
    form!(ctx, case, "add", "BigDecimal += &BigDecimal", &sum, { let mut x = a.clone(); x += b; x });
    form!(ctx, case, "add", "BigDecimal += BigDecimalRef", &sum, { let mut x = a.clone(); x += b.to_ref(); x });

    form!(ctx, case, "sub", "BigDecimal - BigDecimal", &dif, a.clone() - b.clone());
    form!(ctx, case, "sub", "BigDecimal - &BigDecimal", &dif, a.clone() - b);
    form!(ctx, case, "sub", "BigDecimal - BigDecimalRef", &dif, a.clone() - b.to_ref());
    form!(ctx, case, "sub", "&BigDecimal - BigDecimal", &dif, a - b.clone());
    form!(ctx, case, "sub", "&BigDecimal - &BigDecimal", &dif, a - b);
    form!(ctx, case, "sub", "&BigDecimal - BigDecimalRef", &dif, a - b.to_ref());
    form!(ctx, case, "sub", "BigDecimalRef - BigDecimal", &dif, a.to_ref() - b.clone());
    form!(ctx, case, "sub", "BigDecimalRef - &BigDecimal", &dif, a.to_ref() - b);
    form!(ctx, case, "sub", "BigDecimalRef - BigDecimalRef", &dif, a.to_ref() - b.to_ref());
    form!(ctx, case, "sub", "BigDecimal -= BigDecimal", &dif, { let mut x = a.clone(); x -= b.clone(); x });
    form!(ctx, case, "sub", "BigDecimal -= &BigDecimal", &dif, { let mut x = a.clone(); x -= b; x });
    form!(ctx, case, "sub", "BigDecimal -= BigDecimalRef", &dif, { let mut x = a.clone(); x -= b.to_ref(); x });

    form!(ctx, case, "mul", "BigDecimal * BigDecimal", &prd, a.clone() * b.clone());
    form!(ctx, case, "mul", "BigDecimal * &BigDecimal", &prd, a.clone() * b);
    form!(ctx, case, "mul", "&BigDecimal * BigDecimal", &prd, a * b.clone());
    form!(ctx, case, "mul", "&BigDecimal * &BigDecimal", &prd, a * b);
    form!(ctx, case, "mul", "BigDecimal *= BigDecimal", &prd, { let mut x = a.clone(); x *= b.clone(); x });
    form!(ctx, case, "mul", "BigDecimal *= &BigDecimal", &prd, { let mut x = a.clone(); x *= b; x });
}

fn bigint_forms(ctx: &mut Ctx, case: &Case, a: &BigDecimal, ad: &Dec, i: &BigInt) {
    let id = Dec::new(i.clone(), 0);
    let sum = model::add(ad, &id);
    let d1 = model::sub(ad, &id);
    let d2 = model::sub(&id, ad);
    let prd = model::mul(ad, &id);

    form!(ctx, case, "add-bigint", "BigDecimal + BigInt", &sum, a.clone() + i.clone());
    form!(ctx, case, "add-bigint", "&BigDecimal + BigInt", &sum, a + i.clone());
    form!(ctx, case, "add-bigint", "BigDecimalRef + BigInt", &sum, a.to_ref() + i.clone());
    form!(ctx, case, "add-bigint", "BigDecimal + &BigInt", &sum, a.clone() + i);
    form!(ctx, case, "add-bigint", "&BigDecimal + &BigInt", &sum, a + i);
    form!(ctx, case, "add-bigint", "BigDecimalRef + &BigInt", &sum, a.to_ref() + i);
    form!(ctx, case, "add-bigint", "BigInt + BigDecimal", &sum, i.clone() + a.clone());
    form!(ctx, case, "add-bigint", "BigInt + &BigDecimal", &sum, i.clone() + a);
    form!(ctx, case, "add-bigint", "BigInt + BigDecimalRef", &sum, i.clone() + a.to_ref());
    form!(ctx, case, "add-bigint", "&BigInt + BigDecimal", &sum, i + a.clone());
    form!(ctx, case, "add-bigint", "&BigInt + &BigDecimal", &sum, i + a);
    form!(ctx, case, "add-bigint", "&BigInt + BigDecimalRef", &sum, i + a.to_ref());
    form!(ctx, case, "add-bigint", "BigDecimal += BigInt", &sum, { let mut x = a.clone(); x += i.clone(); x });
    form!(ctx, case, "add-bigint", "BigDecimal += &BigInt", &sum, { let mut x = a.clone(); x += i; x });

    form!(ctx, case, "sub-bigint", "BigDecimal - BigInt", &d1, a.clone() - i.clone());
    form!(ctx, case, "sub-bigint", "&BigDecimal - BigInt", &d1, a - i.clone());
    form!(ctx, case, "sub-bigint", "BigDecimalRef - BigInt", &d1, a.to_ref() - i.clone());
    form!(ctx, case, "sub-bigint", "BigDecimal - &BigInt", &d1, a.clone() - i);
    form!(ctx, case, "sub-bigint", "&BigDecimal - &BigInt", &d1, a - i);
    form!(ctx, case, "sub-bigint", "BigDecimalRef - &BigInt", &d1, a.to_ref() - i);
    form!(ctx, case, "sub-bigint", "BigInt - BigDecimal", &d2, i.clone() - a.clone());
    form!(ctx, case, "sub-bigint", "&BigInt - BigDecimal", &d2, i - a.clone());
    form!(ctx, case, "sub-bigint", "BigInt - BigDecimalRef", &d2, i.clone() - a.to_ref());
    form!(ctx, case, "sub-bigint", "&BigInt - BigDecimalRef", &d2, i - a.to_ref());
    form!(ctx, case, "sub-bigint", "BigDecimal -= BigInt", &d1, { let mut x = a.clone(); x -= i.clone(); x });
    form!(ctx, case, "sub-bigint", "BigDecimal -= &BigInt", &d1, { let mut x = a.clone(); x -= i; x });

    form!(ctx, case, "mul-bigint", "BigDecimal * BigInt", &prd, a.clone() * i.clone());
    form!(ctx, case, "mul-bigint", "BigDecimal * &BigInt", &prd, a.clone() * i);
    form!(ctx, case, "mul-bigint", "&BigDecimal * BigInt", &prd, a * i.clone());
    form!(ctx, case, "mul-bigint", "&BigDecimal * &BigInt", &prd, a * i);
    form!(ctx, case, "mul-bigint", "BigInt * BigDecimal", &prd, i.clone() * a.clone());
    form!(ctx, case, "mul-bigint", "BigInt * &BigDecimal", &prd, i.clone() * a);
    form!(ctx, case, "mul-bigint", "&BigInt * BigDecimal", &prd, i * a.clone());
    form!(ctx, case, "mul-bigint", "&BigInt * &BigDecimal", &prd, i * a);
    form!(ctx, case, "mul-bigint", "BigDecimal *= BigInt", &prd, { let mut x = a.clone(); x *= i.clone(); x });
    form!(ctx, case, "mul-bigint", "BigDecimal *= &BigInt", &prd, { let mut x = a.clone(); x *= i; x });
}

fn derived_forms(ctx: &mut Ctx, case: &Case, a: &BigDecimal, b: &BigDecimal, ad: &Dec, bd: &Dec) {
    let two = Dec::new(BigInt::from(2), 0);
    form!(ctx, case, "double", "double()", &model::mul(ad, &two), a.double());
    form!(ctx, case, "half", "half()", &model::half(ad), a.half());
    form!(ctx, case, "square", "square()", &model::mul(ad, ad), a.square());
    form!(ctx, case, "cube", "cube()", &model::mul(&model::mul(ad, ad), ad), a.cube());
    form!(ctx, case, "neg", "-BigDecimal", &ad.neg(), -a.clone());
    form!(ctx, case, "neg", "-&BigDecimal", &ad.neg(), -a);
    form!(ctx, case, "neg", "(-BigDecimalRef).to_owned()", &ad.neg(), (-a.to_ref()).to_owned());
    let abs = Dec::new(gen::abs(&ad.n), ad.s);
    form!(ctx, case, "abs", "BigDecimal::abs", &abs, BigDecimal::abs(a));
    form!(ctx, case, "abs", "Signed::abs", &abs, Signed::abs(a));
    form!(ctx, case, "abs", "BigDecimalRef::abs().to_owned()", &abs, a.to_ref().abs().to_owned());
    let s3 = model::add(&model::add(ad, bd), ad);
    form!(ctx, case, "sum", "into_iter().sum()", &s3, vec![a.clone(), b.clone(), a.clone()].into_iter().sum::<BigDecimal>());
    form!(ctx, case, "sum", "iter().sum()", &s3, [a.clone(), b.clone(), a.clone()].iter().sum::<BigDecimal>());
    let empty: Vec<BigDecimal> = vec![];
    form!(ctx, case, "sum", "empty sum", &Dec::new(BigInt::zero(), 0), empty.iter().sum::<BigDecimal>());
}

pub fn check_case(case: &Case, ctx: &mut Ctx) {
    let (ad, bd) = match (Dec::from_tok(case.arg(0)), Dec::from_tok(case.arg(1))) {
        (Some(a), Some(b)) => (a, b),
        _ => return,
    };
    let sel: u64 = case.arg(2).parse().unwrap_or(0);
    ctx.begin_case(case);
    let a = ad.bd();
    let b = bd.bd();

    decimal_forms(ctx, case, &a, &b, &ad, &bd);
    let keep = ctx.event_budget;
    ctx.event_budget = 0; // (the swapped pass is not logged: the event's inputs are in case order)
    decimal_forms(ctx, case, &b, &a, &bd, &ad);
    ctx.event_budget = keep;
    bigint_forms(ctx, case, &a, &ad, &bd.n);
    derived_forms(ctx, case, &a, &b, &ad, &bd);

    let adr = &ad;
    match sel % 10 {
        0 => prim_forms!(ctx, case, a, adr, u8, unsigned_vals!(u8, sel)),
        1 => prim_forms!(ctx, case, a, adr, u16, unsigned_vals!(u16, sel)),
        2 => prim_forms!(ctx, case, a, adr, u32, unsigned_vals!(u32, sel)),
        3 => prim_forms!(ctx, case, a, adr, u64, unsigned_vals!(u64, sel)),
        4 => prim_forms!(ctx, case, a, adr, u128, unsigned_vals!(u128, sel)),
        5 => prim_forms!(ctx, case, a, adr, i8, signed_vals!(i8, sel)),
        6 => prim_forms!(ctx, case, a, adr, i16, signed_vals!(i16, sel)),
        7 => prim_forms!(ctx, case, a, adr, i32, signed_vals!(i32, sel)),
        8 => prim_forms!(ctx, case, a, adr, i64, signed_vals!(i64, sel)),
        _ => prim_forms!(ctx, case, a, adr, i128, signed_vals!(i128, sel)),
    }

    let nontrivial = !ad.is_zero() && !bd.is_zero();
    let path = ctx.end_case(case.hash(), nontrivial);
    let _ = path;
    if ctx.want_sample() {
        let s = a.clone() + &b;
        ctx.sample(case, format!("a+b = {}, plus {} other call shapes, all equal to the exact model value", Dec::of(&s).tok(), 130));
    }
}

//! C10 — square root is the true root rounded as the context dictates

use crate::gen::{self, ndigits, pow10, Dec, Rng};
use crate::model::{self, mode_from_name, mode_name, MODES};
use crate::monitor::{Case, Ctx};
use crate::{PropDef, Tier, Unit};
use bigdecimal::{BigDecimal, Context, RoundingMode};
use num_bigint::BigInt;
use num_traits::{Signed, Zero};
use std::cmp::Ordering;
use std::num::NonZeroU64;

pub fn def() -> PropDef {
    PropDef {
        id: "C10",
        plan,
        run_unit,
        replay,
        required_probes: &["Sqrt_ParityAdjust", "Sqrt_LongInput", "Sqrt_Sticky", "Sqrt_Exact", "Wsr_RoundInside", "Wsr_Carry", "Wsr_CarryNewDigit"],
        rule: "exhaustive small scope: every n in 1..3000 x scales -2..3 x p 1..4 x 7 modes; then seeded non-negative decimals of 1..2000 digits at scales -2000..2000 of both parities, with dedicated families: inputs longer than 2(p+5) digits, perfect squares t^2, perfect squares +-1 unit in a far-away digit (1..120 places down, one in four anywhere down to the 2000-digit limit, one in four on or beside the 2(p+5)-th digit; one in three written with 1..4 trailing zeros), roots whose digits after the p-th are 5000..0 (exact tie), 5000..0x, 4999..9x (built by squaring a (p+1..p+40)-digit root and perturbing), roots of all nines (carry into a new digit), 10^k; precision p in 1..150 with weight on 1..5 and 100, all 7 modes; every case through sqrt_with_context on value and reference, sqrt_abs / sqrt_copysign on x and -x, sqrt() for the default context; oracle = correctly rounded root from a verified integer square-root bracket, plus the directed-mode inequalities r^2 >= x / r^2 <= x checked separately. distinct = distinct (x, p, mode); non-trivial = the root is not representable in p digits (rounding decides)",
    }
}

fn plan(tier: Tier) -> Vec<Unit> {
    match tier {
        Tier::Quick => { let mut v = crate::util::split_budget("roots", 300_000, 2_000); v.extend(crate::util::split_budget("small", 3_000, 60)); v }
        Tier::Thorough => { let mut v = crate::util::split_budget("roots", 30_000_000, 10_000); v.extend(crate::util::split_budget("small", 3_000, 30)); v }
        Tier::Miri => crate::util::split_budget("roots", 4, 2),
    }
}

pub fn gen_precision(r: &mut Rng) -> u64 {
    match r.below(8) {
        0 | 1 => 1 + r.below(5),
        2 => 100,
        3 => 1 + r.below(150),
        4 => 1 + r.below(20),
        5 => *r.pick(&[1u64, 2, 3, 7, 16, 34, 99, 100, 101, 150, 160]),
        _ => 1 + r.below(40),
    }
}

/// x for a k-th root workload (k = 2 or 3): returns a non-negative decimal
pub fn gen_radicand(r: &mut Rng, k: u32, p: u64, i: u64) -> Dec {
    let kk = k as u64;
    match r.below(12) {
        0 => {
            // long input: more digits than k(p+5)
            let len = (kk * (p + 5) + 1 + r.below(60)) as usize;
            let n: BigInt = gen::digit_string(r, len.min(2000)).parse().unwrap();
            Dec::new(n, r.range(-2000, 2000))
        }
        1 | 2 => {
            // perfect power t^k, root with <= p digits or more
            let l = if r.bool() { 1 + r.below(p) } else { p + 1 + r.below(40) };
            let t: BigInt = gen::digit_string(r, l as usize).parse().unwrap();
            let ts = r.range(-300, 300);
            Dec::new(num_traits::pow::Pow::pow(&t, k), ts * k as i64)
        }
        3 | 4 => {
            // perfect power +- 1 unit far down
            let l = 1 + r.below(p + 3);
            let t: BigInt = gen::digit_string(r, l as usize).parse().unwrap();
            let ts = r.range(-100, 100);
            let pw = num_traits::pow::Pow::pow(&t, k);
            // the perturbing unit sits 1..120 places down, or (1 in 4) anywhere down to the 2000-digit end of the domain
            let room = 1990u64.saturating_sub(gen::ndigits(&pw));
            let nd = gen::ndigits(&pw);
            let j = match r.below(4) {
                0 if room > 120 => 1 + r.below(room),
                // the unit lands on, or one or two places beside, the k(p+5)-th digit: the length up to which the
                // implementation keeps digits of a long radicand
                1 if kk * (p + 5) + 2 > nd + 2 => (kk * (p + 5) + 2 - r.below(5)).saturating_sub(nd).max(1),
                _ => r.below(120) + 1,
            };
            let base = pw * pow10(j);
            let mut n = if r.bool() { base + 1u8 } else { base - 1u8 };
            let mut s = ts * k as i64 + j as i64;
            // the same value written with 1..4 trailing zeros (the scale keeps or changes its residue mod k)
            if r.chance(1, 3) { let z = 1 + r.below(4); n = n * pow10(z); s += z as i64; }
            Dec::new(n, s)
        }
        5 | 6 | 7 => {
            // root with a chosen tail after the p-th digit: q (p digits) then tail, squared/cubed, then maybe perturbed
            let q = gen::digit_string(r, p as usize);
            let extra = 1 + r.below(40) as usize;
            let tail = match r.below(5) {
                0 => format!("5{}", "0".repeat(extra - 1)),
                1 => format!("4{}", "9".repeat(extra - 1)),
                2 => format!("{}1", "0".repeat(extra - 1)),
                3 => "9".repeat(extra),
                _ => format!("5{}1", "0".repeat(extra.saturating_sub(2))),
            };
            let t: BigInt = format!("{}{}", q, tail).parse().unwrap();
            let ts = r.range(-200, 200);
            let mut n = num_traits::pow::Pow::pow(&t, k);
            let mut s = ts * k as i64;
            match r.below(3) {
                0 => {}
                _ => {
                    let room = 1990u64.saturating_sub(gen::ndigits(&n));
                    let j = if room > 80 && r.chance(1, 4) { 1 + r.below(room) } else { r.below(80) + 1 };
                    n = n * pow10(j) + if r.bool() { 1 } else { -1 };
                    s += j as i64;
                }
            }
            if n.is_negative() { n = -n; }
            if r.chance(1, 4) { let z = 1 + r.below(4); n = n * pow10(z); s += z as i64; }
            Dec::new(n, s)
        }
        8 => {
            // all nines and powers of ten at every scale residue
            let l = 1 + r.below(60) as usize;
            let n: BigInt = if r.bool() { "9".repeat(l).parse().unwrap() } else { pow10(l as u64 - 1) };
            Dec::new(n, r.range(-40, 40))
        }
        9 => Dec::new(BigInt::from(r.range(1, 99_999)), r.range(-12, 12)),
        _ => {
            let lm = if i % 40 == 0 { 2000 } else { 120 };
            let n = gen::uint_nonzero(r, lm);
            Dec::new(n, r.range(-2000, 2000))
        }
    }
}

fn run_unit(unit: &Unit, r: &mut Rng, ctx: &mut Ctx) {
    if unit.kind == "small" {
        // exhaustive: every n in 1..=3000 x scale -2..=3 x p 1..=4 x 7 modes
        for idx in unit.start..unit.start + unit.count {
            let n = idx as i64 + 1;
            for s in -2i64..=3 {
                for p in 1u64..=4 {
                    for &mode in MODES.iter() {
                        let case = Case::new("sqrt").push(Dec::new(BigInt::from(n), s).tok()).push(p).push(mode_name(mode));
                        check_case(&case, ctx);
                    }
                }
            }
        }
        if unit.start == 0 {
            ctx.exhaustive_notes.push("C10 small scope: every n in 1..3000 x scales -2..3 x p 1..4 x 7 modes (504 000 cases, all forms)".into());
        }
        return;
    }
    for i in 0..unit.count {
        let p = gen_precision(r);
        let x = if r.chance(1, 60) { Dec::new(BigInt::zero(), r.range(-50, 50)) } else { gen_radicand(r, 2, p, unit.start + i) };
        let mode = *r.pick(&MODES);
        let case = Case::new("sqrt").push(x.tok()).push(p).push(mode_name(mode));
        check_case(&case, ctx);
    }
}

fn replay(case: &Case, ctx: &mut Ctx) {
    check_case(case, ctx);
}

fn default_ctx() -> (u64, RoundingMode) {
    (crate::param("precision").and_then(|p| p.parse().ok()).unwrap_or(100),
     crate::param("mode").and_then(|m| mode_from_name(&m)).unwrap_or(RoundingMode::HalfEven))
}

/// compare g^k * 10^(-k*gs) with m * 10^(-xs)
pub fn cmp_power(g: &Dec, k: u32, x_mag: &BigInt, xs: i64) -> Ordering {
    let gp = num_traits::pow::Pow::pow(&g.n.abs(), k);
    let e = xs as i128 - (k as i128) * (g.s as i128); // g^k * 10^e  vs  m
    if e >= 0 {
        (gp * pow10(e as u64)).cmp(x_mag)
    } else {
        gp.cmp(&(x_mag * pow10((-e) as u64)))
    }
}

fn judge_root(ctx: &mut Ctx, case: &Case, what: &str, r: Result<BigDecimal, String>, want: &Dec, x_mag: &BigInt, xs: i64, mode: RoundingMode, want_negative: bool) {
    match r {
        Err(p) => ctx.fail("sqrt/panic", case, format!("`{}` panicked: {}", what, p)),
        Ok(v) => {
            ctx.out_bd(&v);
            let g = Dec::of(&v);
            let want = if want_negative { want.neg() } else { want.clone() };
            let held = ctx.check(model::eq_dec(&g, &want), "sqrt/not-correctly-rounded", case, || format!("`{}`: got {} want {}", what, g.tok(), want.tok()));
            if what == "sqrt_with_context" && ctx.want_event() && case.arg(0).len() < 400 {
                ctx.log("sqrt", &[case.arg(0).to_string()], serde_json::json!({"p": case.arg(1).parse::<u64>().unwrap_or(1), "mode": case.arg(2)}), g.tok(), held);
            }
            // directed modes: independent side condition on the magnitude
            let c = cmp_power(&g, 2, x_mag, xs);
            match mode {
                RoundingMode::Up | RoundingMode::Ceiling => { ctx.check(c != Ordering::Less, "sqrt/below-true-root-under-up", case, || format!("`{}`: {}^2 < x under {}", what, g.tok(), mode_name(mode))); }
                RoundingMode::Down | RoundingMode::Floor => { ctx.check(c != Ordering::Greater, "sqrt/above-true-root-under-down", case, || format!("`{}`: {}^2 > x under {}", what, g.tok(), mode_name(mode))); }
                _ => {}
            }
        }
    }
}

pub fn check_case(case: &Case, ctx: &mut Ctx) {
    let x = match Dec::from_tok(case.arg(0)) { Some(d) if !d.n.is_negative() => d, _ => return };
    let p: u64 = match case.arg(1).parse() { Ok(p) if p >= 1 => p, _ => return };
    let mode = mode_from_name(case.arg(2)).unwrap_or(RoundingMode::HalfEven);
    ctx.begin_case(case);
    let b = x.bd();
    let nb = x.neg().bd();
    let c = Context::new(NonZeroU64::new(p).unwrap(), mode);
    if x.n.is_zero() {
        let rs = vec![
            ("sqrt_with_context", ctx.guard(|| b.sqrt_with_context(&c))),
            ("ref.sqrt_with_context", ctx.guard(|| b.to_ref().sqrt_with_context(&c))),
            ("sqrt", ctx.guard(|| b.sqrt())),
            ("ref.sqrt_abs_with_context", ctx.guard(|| Some(b.to_ref().sqrt_abs_with_context(&c)))),
            ("ref.sqrt_copysign_with_context", ctx.guard(|| Some(b.to_ref().sqrt_copysign_with_context(&c)))),
        ];
        for (name, r) in rs {
            match r {
                Err(p) => ctx.fail("sqrt/panic", case, format!("`{}` of zero panicked: {}", name, p)),
                Ok(v) => { ctx.check(v.as_ref().map(|z| z.is_zero()).unwrap_or(false), "sqrt/zero", case, || format!("`{}` of zero = {:?}", name, v.map(|z| Dec::of(&z).tok()))); }
            }
        }
        ctx.end_case(case.hash(), false);
        return;
    }
    let want = model::root_rounded(&x.n, x.s, 2, p, mode, false);
    // is the root representable in p digits?  (Down and Up agree exactly then)
    let exact = model::root_rounded(&x.n, x.s, 2, p, RoundingMode::Down, false) == model::root_rounded(&x.n, x.s, 2, p, RoundingMode::Up, false);

    let r = ctx.guard(|| b.sqrt_with_context(&c)).map(|o| o.unwrap_or_else(|| BigDecimal::from(-1)));
    judge_root(ctx, case, "sqrt_with_context", r, &want, &x.n, x.s, mode, false);
    let r = ctx.guard(|| b.to_ref().sqrt_with_context(&c)).map(|o| o.unwrap_or_else(|| BigDecimal::from(-1)));
    judge_root(ctx, case, "BigDecimalRef::sqrt_with_context", r, &want, &x.n, x.s, mode, false);
    let r = ctx.guard(|| b.to_ref().sqrt_abs_with_context(&c));
    judge_root(ctx, case, "BigDecimalRef::sqrt_abs_with_context", r, &want, &x.n, x.s, mode, false);
    let r = ctx.guard(|| b.to_ref().sqrt_copysign_with_context(&c));
    judge_root(ctx, case, "BigDecimalRef::sqrt_copysign_with_context", r, &want, &x.n, x.s, mode, false);
    // negative input: None / root of |x| / the same root with the sign of x
    match ctx.guard(|| (nb.sqrt_with_context(&c), nb.to_ref().sqrt_with_context(&c), nb.sqrt())) {
        Err(p) => ctx.fail("sqrt/panic", case, format!("sqrt of the negated input panicked: {}", p)),
        Ok((a1, a2, a3)) => { ctx.more_evals(2); ctx.check(a1.is_none() && a2.is_none() && a3.is_none(), "sqrt/negative-not-none", case, || "sqrt of a negative value returned Some".to_string()); }
    }
    let r = ctx.guard(|| nb.to_ref().sqrt_abs_with_context(&c));
    judge_root(ctx, case, "BigDecimalRef::sqrt_abs_with_context (negated input)", r, &want, &x.n, x.s, mode, false);
    let r = ctx.guard(|| nb.to_ref().sqrt_copysign_with_context(&c));
    judge_root(ctx, case, "BigDecimalRef::sqrt_copysign_with_context (negated input)", r, &want, &x.n, x.s, mode, true);
    // default-context form
    let (dp, dm) = default_ctx();
    if p == dp || case.hash() % 4 == 0 {
        let want_d = model::root_rounded(&x.n, x.s, 2, dp, dm, false);
        let r = ctx.guard(|| b.sqrt()).map(|o| o.unwrap_or_else(|| BigDecimal::from(-1)));
        judge_root(ctx, case, "sqrt (default context)", r, &want_d, &x.n, x.s, dm, false);
    }
    ctx.end_case(case.hash(), !exact);
    if ctx.want_sample() && !exact {
        ctx.sample(case, format!("x has {} digits; all forms return {}", ndigits(&x.n), want.tok()));
    }
}

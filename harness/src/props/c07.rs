//! C07 — rounding to a precision honours the rounding mode at the p-th digit

use crate::gen::{self, ndigits, pow10, Dec, Rng};
use crate::model::{self, mode_from_name, mode_name, MODES};
use crate::monitor::{Case, Ctx};
use crate::{PropDef, Tier, Unit};
use bigdecimal::{BigDecimal, Context, RoundingMode};
use num_bigint::BigInt;
use num_traits::{Signed, Zero};
use std::num::NonZeroU64;

pub fn def() -> PropDef {
    PropDef {
        id: "C07",
        plan,
        run_unit,
        replay,
        required_probes: &[
            "WithPrec_Round", "WithPrec_TermApplied", "WithPrec_LeadingZeroRemainder", "WithPrec_Pad", "WithPrec_Equal",
            "Wsr_RoundInside", "Wsr_Carry", "Wsr_CarryNewDigit", "Wsr_Extend", "AddRef_Unaligned", "AddRef_Aligned",
        ],
        rule: "exhaustive small scope: every |n| < 2000 x scales -2..3 x p 1..5 x 7 modes through all entry points; then seeded decimals of 1..3000 digits (tie tails, near ties, all-nines) x precision p from 1..digits+5 (every p for inputs of <= 12 digits, otherwise sampled plus digits-1, digits, digits+1) x 7 modes through with_precision_round, with_prec (value and its negation), Context::round_decimal, round_decimal_ref from &BigDecimal / BigDecimalRef / &BigInt, BigDecimalRef::round_with_context, and Context::add_refs / add_refs_into on sums whose exact value needs more than p digits (including cancelling sums, operands far apart in magnitude, and small operands placed 4 below .. 1 above the rounding position of a power-of-ten / all-nines / random large operand); exhaustive machine-word boundary integers with 0..22 appended digits; each result compared by value with the model's rounding at the p-th digit, exact zero-padded representation when digits <= p. distinct = distinct (input, p, mode) tuples; non-trivial = input has more than p digits (digits are discarded)",
    }
}

fn plan(tier: Tier) -> Vec<Unit> {
    match tier {
        Tier::Quick => {
            let mut v = crate::util::split_budget("round", 200_000, 2_000);
            v.extend(crate::util::split_budget("small", 3_999, 100));
            v.extend(crate::util::split_budget("allp", 6_000, 200));
            v.extend(crate::util::split_budget("ties", 150_000, 2_000));
            v.extend(crate::util::split_budget("sums", 150_000, 2_000));
            v.extend(crate::util::split_budget("sumpos", 150_000, 2_000));
            v.extend(crate::util::split_budget("words", gen::word_values().len() as u64, 8));
            v
        }
        Tier::Thorough => {
            let mut v = crate::util::split_budget("round", 12_000_000, 10_000);
            v.extend(crate::util::split_budget("small", 3_999, 50));
            v.extend(crate::util::split_budget("allp", 400_000, 2_000));
            v.extend(crate::util::split_budget("ties", 12_000_000, 10_000));
            v.extend(crate::util::split_budget("sums", 8_000_000, 10_000));
            v.extend(crate::util::split_budget("sumpos", 8_000_000, 10_000));
            v.extend(crate::util::split_budget("words", gen::word_values().len() as u64, 8));
            v
        }
        Tier::Miri => {
            let mut v = crate::util::split_budget("round", 6, 3);
            v.extend(crate::util::split_budget("sums", 4, 2));
            v
        }
    }
}

fn run_unit(unit: &Unit, r: &mut Rng, ctx: &mut Ctx) {
    match unit.kind {
        "round" => {
            for i in 0..unit.count {
                let lm = if i % 25 == 0 { 3000 } else if i % 4 == 0 { 300 } else { 40 };
                let d = gen::dec(r, lm, 3000);
                let nd = ndigits(&d.n);
                let p = match r.below(5) {
                    0 => nd.saturating_sub(1).max(1),
                    1 => nd,
                    2 => nd + 1 + r.below(5),
                    _ => 1 + r.below(nd + 5),
                };
                let mode = *r.pick(&MODES);
                let case = Case::new("round").push(d.tok()).push(p).push(mode_name(mode));
                check_case(&case, ctx);
            }
        }
        "small" => {
            // exhaustive: every |n| < 2000 x scale -2..=3 x p 1..=5 x 7 modes through all eight entry points
            for idx in unit.start..unit.start + unit.count {
                let n = idx as i64 - 1999;
                for s in -2i64..=3 {
                    let d = Dec::new(BigInt::from(n), s);
                    for p in 1u64..=5 {
                        for &mode in MODES.iter() {
                            let case = Case::new("round").push(d.tok()).push(p).push(mode_name(mode));
                            check_case(&case, ctx);
                        }
                    }
                }
            }
            if unit.start == 0 {
                ctx.exhaustive_notes.push("C07 small scope: every |n| < 2000 x scales -2..3 x p 1..5 x 7 modes (839 790 cases x 8 entry points)".into());
            }
        }
        "ties" => {
            // head of exactly p digits, then a tail of chosen length L in one of the critical shapes;
            // L is uniform so that every tail length up to 1200 is visited (digit-estimate boundaries)
            for _ in 0..unit.count {
                let p = 1 + r.below(40);
                let head = gen::digit_string(r, p as usize);
                let l = if r.bool() { 1 + r.below(1200) as usize } else { 1 + r.below(160) as usize };
                let tail = match r.below(8) {
                    0 => format!("5{}", "0".repeat(l - 1)),
                    1 => format!("4{}", "9".repeat(l - 1)),
                    2 => format!("5{}1", "0".repeat(l.saturating_sub(2))),
                    3 => format!("{}1", "0".repeat(l - 1)),
                    4 => "9".repeat(l),
                    5 => { let z = r.below(l as u64) as usize; format!("49{}{}", "9".repeat(z), gen::digit_string(r, (l - z.min(l - 1)).max(1))) }
                    6 => { let z = r.below(l as u64) as usize; format!("5{}{}", "0".repeat(z), gen::digit_string(r, (l - z.min(l - 1)).max(1))) }
                    _ => format!("0{}", gen::digit_string(r, l)),
                };
                let head = if r.chance(1, 5) { "9".repeat(p as usize) } else { head };
                let n: BigInt = format!("{}{}", head, tail).parse().unwrap();
                let d = Dec::new(if r.bool() { -n } else { n }, r.range(-50, 1500));
                let mode = *r.pick(&MODES);
                let case = Case::new("round").push(d.tok()).push(p).push(mode_name(mode));
                check_case(&case, ctx);
            }
        }
        "allp" => {
            for _ in 0..unit.count {
                let d = gen::dec(r, 12, 40);
                let nd = ndigits(&d.n);
                for p in 1..=nd + 5 {
                    for &mode in MODES.iter() {
                        let case = Case::new("round").push(d.tok()).push(p).push(mode_name(mode));
                        check_case(&case, ctx);
                    }
                }
            }
        }
        "words" => {
            // exhaustive: unscaled integers on the machine-word boundaries, followed by 0..=22 further digits
            // (zeros, nines, 50..0, 49..9, 50..01), rounded so that exactly those digits (and 0..2 more) are dropped
            let w = gen::word_values();
            for idx in unit.start..unit.start + unit.count {
                let base = &w[idx as usize % w.len()];
                let nd = ndigits(base);
                for extra in 0u64..=22 {
                    let tails: Vec<BigInt> = if extra == 0 { vec![BigInt::zero()] } else {
                        vec![BigInt::zero(), pow10(extra) - 1, pow10(extra - 1) * 5, pow10(extra - 1) * 5 - 1, pow10(extra - 1) * 5 + 1]
                    };
                    for t in tails {
                        let n = if base.is_negative() { base * pow10(extra) - &t } else { base * pow10(extra) + &t };
                        let total = ndigits(&n);
                        for p in [nd, nd.saturating_sub(1).max(1), nd.saturating_sub(2).max(1), total.saturating_sub(19).max(1), total.saturating_sub(20).max(1)] {
                            for &mode in MODES.iter() {
                                let case = Case::new("round").push(Dec::new(n.clone(), 3).tok()).push(p).push(mode_name(mode));
                                check_case(&case, ctx);
                            }
                        }
                    }
                }
            }
            if unit.start == 0 {
                ctx.exhaustive_notes.push(format!("C07 word boundaries: {} unscaled integers on machine-word / power-of-ten boundaries x 0..22 appended digits (5 tail shapes) x 5 precisions (the boundary's own digits, 1 and 2 fewer, 19 and 20 dropped) x 7 modes", w.len()));
            }
        }
        "sumpos" => {
            // two-operand sums whose small operand starts at a chosen place relative to the rounding position of
            // the large one (4 below ... 1 above), powers of ten and all-nines favoured, opposite signs favoured:
            // cancellation that moves the leading digit, sticky digits landing on the rounding digit
            for _ in 0..unit.count {
                let p = match r.below(5) { 0 => 1 + r.below(6), 1 => 100, 2 => 1 + r.below(120), _ => 1 + r.below(40) };
                let la = match r.below(3) { 0 => 1, 1 => 1 + r.below(p + 3), _ => 1 + r.below(6) } as usize;
                let an: BigInt = match r.below(5) {
                    0 | 1 => pow10(la as u64 - 1),                       // 1, 10, 100: a power of ten however written
                    2 => pow10(la as u64) - 1,                           // 99..9
                    3 => pow10(la as u64 - 1) + 1,                       // 10..01
                    _ => gen::digit_string(r, la).parse().unwrap(),
                };
                let a = Dec::new(if r.bool() { -an } else { an }, r.range(-60, 60));
                // exponent of the p-th significant digit of a
                let ep = (ndigits(&a.n) as i64 - a.s - 1) - (p as i64 - 1);
                let off = r.range(-4, 1);
                let bn: BigInt = match r.below(6) {
                    0 => BigInt::from(r.range(1, 9)),
                    1 => BigInt::from(*r.pick(&[5i64, 50, 500, 49, 499, 51, 501, 6, 60, 4, 45, 55, 95, 99, 1, 10])),
                    2 => BigInt::from(r.range(10, 999)),
                    3 => { let l = 1 + r.below(30) as usize; gen::digit_string(r, l).parse().unwrap() }
                    4 => { let l = 1 + r.below(8); pow10(l) / 2 }
                    _ => { let l = 1 + r.below(8); pow10(l) / 2 + r.range(-1, 1) }
                };
                let bneg = if r.chance(3, 4) { !a.n.is_negative() } else { a.n.is_negative() };
                let bs = ndigits(&bn) as i64 - 1 - (ep + off);
                let b = Dec::new(if bneg { -bn } else { bn }, bs);
                let mode = *r.pick(&MODES);
                let case = Case::new("sum").push(a.tok()).push(b.tok()).push(p).push(mode_name(mode));
                check_case(&case, ctx);
            }
        }
        "sums" => {
            for i in 0..unit.count {
                let lm = if i % 25 == 0 { 800 } else { 40 };
                let a = gen::dec(r, lm, 400);
                let b = match r.below(6) {
                    0 => {
                        // cancelling: -(a) perturbed far down
                        let k = r.range(0, 60);
                        Dec::new(-(&a.n * pow10(k as u64)) + r.range(-2, 2), a.s + k)
                    }
                    1 => {
                        // tiny opposite-sign or same-sign operand far below a
                        let k = r.range(5, 120);
                        Dec::new(BigInt::from(r.range(-9, 9)), a.s + k)
                    }
                    2 => {
                        // a power of ten written with few digits against something tiny
                        let k = r.range(5, 80);
                        Dec::new(BigInt::from(if r.bool() { 1 } else { -1 }), a.s + ndigits(&a.n) as i64 + k)
                    }
                    _ => gen::partner(r, &a, lm, 400, 300),
                };
                // sometimes make a itself a power of ten with trailing zeros (1.000, -10.0)
                let a = if r.chance(1, 6) { let z = r.range(0, 6); Dec::new(pow10(z as u64) * if r.bool() { 1 } else { -1 }, z - r.range(0, 3)) } else { a };
                let p = match r.below(4) { 0 => 1 + r.below(5), 1 => 1 + r.below(40), _ => 1 + r.below(ndigits(&a.n) + ndigits(&b.n) + 3) };
                let mode = *r.pick(&MODES);
                let case = Case::new("sum").push(a.tok()).push(b.tok()).push(p).push(mode_name(mode));
                check_case(&case, ctx);
            }
        }
        _ => {}
    }
}

fn replay(case: &Case, ctx: &mut Ctx) {
    check_case(case, ctx);
}

fn judge_value(ctx: &mut Ctx, case: &Case, what: &str, r: Result<BigDecimal, String>, want: &Dec, exact_repr: bool) {
    match r {
        Err(p) => ctx.fail(&format!("{}/panic", what.split(' ').next().unwrap_or(what)), case, format!("`{}` panicked: {}", what, p)),
        Ok(v) => {
            ctx.out_bd(&v);
            let g = Dec::of(&v);
            let ok = if exact_repr { g == *want } else { model::eq_dec(&g, want) };
            let sig = format!("{}/wrong", what.split(' ').next().unwrap_or(what));
            let held = ctx.check(ok, &sig, case, || format!("`{}`: got {} want {}{}", what, g.tok(), want.tok(), if exact_repr { " (exact representation: input has at most p digits)" } else { "" }));
            if what == "with_precision_round" && ctx.want_event() && case.kind() == "round" && case.arg(0).len() < 500 {
                let p: u64 = case.arg(1).parse().unwrap_or(1);
                // (the exact-representation clause is not part of the second opinion: value only)
                let held_value = held || model::eq_dec(&g, want);
                ctx.log("round_prec", &[case.arg(0).to_string()], serde_json::json!({"p": p, "mode": case.arg(2)}), g.tok(), held_value);
            }
        }
    }
}

pub fn check_case(case: &Case, ctx: &mut Ctx) {
    match case.kind() {
        "round" => {
            let d = match Dec::from_tok(case.arg(0)) { Some(d) => d, None => return };
            let p: u64 = match case.arg(1).parse() { Ok(p) if p >= 1 => p, _ => return };
            let mode = mode_from_name(case.arg(2)).unwrap_or(RoundingMode::HalfEven);
            ctx.begin_case(case);
            let b = d.bd();
            let nd = ndigits(&d.n);
            let pz = NonZeroU64::new(p).unwrap();
            let want = model::round_to_prec(&d, p, mode);
            // when the input has at most p digits the result is the input padded with zeros to p digits
            let exact = nd <= p;
            let ctxt = Context::new(pz, mode);

            let r = ctx.guard(|| b.with_precision_round(pz, mode));
            judge_value(ctx, case, "with_precision_round", r, &want, exact);
            let r = ctx.guard(|| ctxt.round_decimal(b.clone()));
            judge_value(ctx, case, "round_decimal (Context)", r, &want, exact);
            let r = ctx.guard(|| ctxt.round_decimal_ref(&b));
            judge_value(ctx, case, "round_decimal_ref (&BigDecimal)", r, &want, exact);
            let r = ctx.guard(|| ctxt.round_decimal_ref(b.to_ref()));
            judge_value(ctx, case, "round_decimal_ref (BigDecimalRef)", r, &want, exact);
            let r = ctx.guard(|| b.to_ref().round_with_context(&ctxt));
            judge_value(ctx, case, "round_with_context (BigDecimalRef)", r, &want, exact);
            // big integers: the unscaled integer as a decimal of scale 0
            let di = Dec::new(d.n.clone(), 0);
            let want_i = model::round_to_prec(&di, p, mode);
            let r = ctx.guard(|| ctxt.round_decimal_ref(&d.n));
            judge_value(ctx, case, "round_decimal_ref (&BigInt)", r, &want_i, exact);

            // with_prec: ties away from zero on the magnitude, symmetric in the sign
            let want_wp = model::round_to_prec(&d, p, RoundingMode::HalfUp);
            let r = ctx.guard(|| b.with_prec(p));
            judge_value(ctx, case, "with_prec", r, &want_wp, exact);
            let nb = d.neg().bd();
            let r = ctx.guard(|| nb.with_prec(p));
            judge_value(ctx, case, "with_prec (negated input)", r, &want_wp.neg(), exact);

            let nontrivial = nd > p && !d.n.is_zero();
            ctx.end_case(case.hash(), nontrivial);
            if ctx.want_sample() && nontrivial {
                ctx.sample(case, format!("all 8 entry points return the value {}", want.tok()));
            }
        }
        "sum" => {
            let (a, b) = match (Dec::from_tok(case.arg(0)), Dec::from_tok(case.arg(1))) { (Some(a), Some(b)) => (a, b), _ => return };
            let p: u64 = match case.arg(2).parse() { Ok(p) if p >= 1 => p, _ => return };
            let mode = mode_from_name(case.arg(3)).unwrap_or(RoundingMode::HalfEven);
            ctx.begin_case(case);
            let (x, y) = (a.bd(), b.bd());
            let ctxt = Context::new(NonZeroU64::new(p).unwrap(), mode);
            let sum = model::add(&a, &b);
            let want = model::round_to_prec(&sum, p, mode);
            let r = ctx.guard(|| ctxt.add_refs(&x, &y));
            judge_value(ctx, case, "add_refs (&a, &b)", r, &want, false);
            let r = ctx.guard(|| ctxt.add_refs(y.to_ref(), x.to_ref()));
            judge_value(ctx, case, "add_refs (b.to_ref(), a.to_ref())", r, &want, false);
            let r = ctx.guard(|| { let mut dest = BigDecimal::from(7); ctxt.add_refs_into(&x, y.to_ref(), &mut dest); dest });
            judge_value(ctx, case, "add_refs_into", r, &want, false);
            // a big integer operand
            let bi = Dec::new(b.n.clone(), 0);
            let want_i = model::round_to_prec(&model::add(&a, &bi), p, mode);
            let r = ctx.guard(|| ctxt.add_refs(&x, &b.n));
            judge_value(ctx, case, "add_refs (&a, &BigInt)", r, &want_i, false);
            let nontrivial = !sum.n.is_zero() && ndigits(&sum.n) > p;
            ctx.end_case(case.hash(), nontrivial);
            if ctx.want_sample() && nontrivial {
                ctx.sample(case, format!("exact sum {} rounds to {}", sum.tok(), want.tok()));
            }
        }
        _ => {}
    }
}

//! C04 — every textual rendering parses back to the same decimal

use crate::gen::{self, ndigits, pow10, Dec, Rng};
use crate::model;
use crate::monitor::{Case, Ctx};
use crate::{PropDef, Tier, Unit};
use bigdecimal::BigDecimal;
use num_bigint::BigInt;
use num_traits::{Signed, Zero};
use std::str::FromStr;

pub fn def() -> PropDef {
    PropDef {
        id: "C04",
        plan,
        run_unit,
        replay,
        required_probes: &[
            "Fmt_Exponential", "Fmt_Dotless", "Fmt_FullScale", "Fmt_IntPad", "Fmt_WithInteger", "Fmt_NoInteger_Sig",
            "Fmt_Plain", "Fmt_Sci", "Fmt_Eng", "Parse_NoDot", "Parse_DotInside", "Parse_Exponent",
        ],
        rule: "grid: every digit length 1..40 x every scale -40..60 x {random, all-nines, 10^k digits} x sign, zero at every grid scale, at scales to +-10^15 and at the ends of the i64 range (i64::MIN, i64::MAX, +-2^31, +-2^32, +-2^53, +-2^62); seeded decimals of 1..3000 digits with scales to +-10^15 (plain notation only for |scale| <= 10^4), 0.000ddd with 3..8 leading zeros, integers with 12..18 trailing zeros. Each value is rendered 10 ways on values and references ({} {:e} {:E} scientific engineering plain and the write_* variants) and every text is parsed back: must parse, be value-equal, keep (digits, scale) where the statement says so, Display length <= digits + 48, Display uses exponent form exactly beyond the documented thresholds (5 leading / 15 trailing zeros), value and reference renderings identical. distinct = distinct decimals; non-trivial = non-zero",
    }
}

const GRID_LEN: u64 = 40;
const GRID_SCALES: u64 = 101; // -40..=60

fn plan(tier: Tier) -> Vec<Unit> {
    match tier {
        Tier::Quick => {
            let mut v = crate::util::split_budget("grid", GRID_LEN * GRID_SCALES, 101);
            v.extend(crate::util::split_budget("random", 300_000, 3_000));
            v.extend(crate::util::split_budget("limbs", 6_000, 300));
            v.extend(crate::util::split_budget("zeros", 4_000, 500));
            v
        }
        Tier::Thorough => {
            let mut v = crate::util::split_budget("grid", GRID_LEN * GRID_SCALES, 101);
            v.extend(crate::util::split_budget("random", 30_000_000, 20_000));
            v.extend(crate::util::split_budget("limbs", 600_000, 3_000));
            v.extend(crate::util::split_budget("zeros", 200_000, 2_000));
            v
        }
        Tier::Miri => crate::util::split_budget("random", 6, 3),
    }
}

fn run_unit(unit: &Unit, r: &mut Rng, ctx: &mut Ctx) {
    match unit.kind {
        "grid" => {
            for idx in unit.start..unit.start + unit.count {
                let len = (idx / GRID_SCALES) as usize + 1;
                let scale = (idx % GRID_SCALES) as i64 - 40;
                let digit_sets = [
                    gen::digit_string(r, len),
                    "9".repeat(len),
                    format!("1{}", "0".repeat(len - 1)),
                ];
                for ds in digit_sets.iter() {
                    for neg in [false, true] {
                        let mut n: BigInt = ds.parse().unwrap();
                        if neg { n = -n; }
                        let case = Case::new("value").push(Dec::new(n, scale).tok());
                        check_case(&case, ctx);
                    }
                }
                if len == 1 {
                    let case = Case::new("value").push(Dec::new(BigInt::zero(), scale).tok());
                    check_case(&case, ctx);
                }
            }
            if unit.start == 0 {
                ctx.exhaustive_notes.push("C04 grid: every digit length 1..40 x every scale -40..60 x {random, all-nines, 10^k} x both signs, and zero at every scale -40..60, all ten renderings".into());
            }
        }
        "random" => {
            for i in 0..unit.count {
                let d = match r.below(8) {
                    0 => {
                        // 0.000ddd with 3..8 leading zeros
                        let n = gen::int_nonzero(r, 12);
                        let lead = r.range(3, 8);
                        Dec::new(n.clone(), ndigits(&n) as i64 + lead)
                    }
                    1 => {
                        // integers with 12..18 trailing zeros, as negative scale or written out
                        let n = gen::int_nonzero(r, 12);
                        let tz = r.range(12, 18);
                        if r.bool() { Dec::new(n, -tz) } else { Dec::new(n * pow10(tz as u64), 0) }
                    }
                    2 => {
                        // wide scales (exponent renderings only)
                        let n = gen::int_any(r, 60, 20);
                        let s = if r.bool() { r.range(-1_000_000_000_000_000, 1_000_000_000_000_000) } else { *r.pick(&[1_000_000_000_000_000i64, -1_000_000_000_000_000, 999_999_999_999_999, i32::MAX as i64 + 1, i32::MIN as i64 - 1, 65_536, -65_536]) };
                        Dec::new(n, s)
                    }
                    3 => {
                        let lm = if i % 25 == 0 { 3000 } else { 300 };
                        gen::dec(r, lm, 10_000)
                    }
                    _ => gen::dec(r, 60, 200),
                };
                let case = Case::new("value").push(d.tok());
                check_case(&case, ctx);
            }
        }
        "limbs" => {
            // consecutive renderings (same thread) of values that agree in their low 64-bit limbs but differ in
            // limb count: y, y + m*2^(64k), y mod 2^(64j), y again
            for _ in 0..unit.count {
                let k = 2 + r.below(3) as usize;
                let mut y = BigInt::zero();
                for _ in 0..k { y = (y << 64) + BigInt::from(r.next() | 1); }
                let s = r.range(-30, 60);
                let j = 1 + r.below(k as u64 - 1) as usize;
                let more = &y + (BigInt::from(1 + r.below(9)) << (64 * k));
                let less = &y % (BigInt::from(1u8) << (64 * j));
                for n in [y.clone(), more, less, y.clone(), -y.clone()] {
                    let case = Case::new("value").push(Dec::new(n, s).tok());
                    check_case(&case, ctx);
                }
            }
        }
        "zeros" => {
            for _ in 0..unit.count {
                let s = match r.below(5) {
                    // "zero with any scale": the ends of the i64 range and the places where a narrower integer type ends
                    4 => *r.pick(&[i64::MIN, i64::MIN + 1, i64::MIN + 2, i64::MAX, i64::MAX - 1, -(1i64 << 31), -(1i64 << 31) - 1, -(1i64 << 31) + 1, 1i64 << 31, (1i64 << 31) - 1,
                        1i64 << 32, -(1i64 << 32), (1i64 << 32) - 1, 1i64 << 53, -(1i64 << 53), 1i64 << 62, -(1i64 << 62)]),
                    0 => r.range(-60, 60),
                    1 => *r.pick(&[1_000_000_000_000_000i64, -1_000_000_000_000_000, 10_000, -10_000, 21, -21, 20, -20, 16, -16, 15, -15, 5, 6, 7]),
                    2 => r.range(-1_000_000_000_000_000, 1_000_000_000_000_000),
                    _ => r.range(-10_000, 10_000),
                };
                let case = Case::new("value").push(Dec::new(BigInt::zero(), s).tok());
                check_case(&case, ctx);
            }
        }
        _ => {}
    }
}

fn replay(case: &Case, ctx: &mut Ctx) {
    check_case(case, ctx);
}

/// (leading-zero threshold, trailing-zero threshold) of default Display; defaults 5 / 15
fn thresholds() -> (i128, i128) {
    (crate::param("lower").and_then(|v| v.parse().ok()).unwrap_or(5), crate::param("upper").and_then(|v| v.parse().ok()).unwrap_or(15))
}

struct Rendering {
    name: &'static str,
    text: String,
    /// must the re-parsed decimal carry identical digits and scale?
    exact_repr: bool,
    /// class used for known-finding signatures
    class: &'static str,
}

pub fn check_case(case: &Case, ctx: &mut Ctx) {
    let d = match Dec::from_tok(case.arg(0)) { Some(d) => d, None => return };
    ctx.begin_case(case);
    let b = d.bd();
    let digits = ndigits(&d.n) as usize;
    let plain_ok = d.s.unsigned_abs() <= 10_000;
    let zero = d.n.is_zero();

    let rendered = ctx.guard(|| {
        let mut v: Vec<Rendering> = vec![];
        let rf = b.to_ref();
        let disp = format!("{}", b);
        let disp_ref = format!("{}", rf);
        let le = format!("{:e}", b);
        let le_ref = format!("{:e}", rf);
        let ue = format!("{:E}", b);
        let ue_ref = format!("{:E}", rf);
        let sci = b.to_scientific_notation();
        let eng = b.to_engineering_notation();
        let mut wsci = String::new();
        b.write_scientific_notation(&mut wsci).unwrap();
        let mut weng = String::new();
        b.write_engineering_notation(&mut weng).unwrap();
        // Display preserves digits and scale except for the zero padding at scales [-15,-1]
        let disp_exact = !(d.s as i128 >= -thresholds().1 && d.s <= -1);
        v.push(Rendering { name: "{}", text: disp, exact_repr: disp_exact, class: "display" });
        v.push(Rendering { name: "{} on ref", text: disp_ref, exact_repr: disp_exact, class: "display" });
        v.push(Rendering { name: "{:e}", text: le, exact_repr: true, class: "lower-exp" });
        v.push(Rendering { name: "{:e} on ref", text: le_ref, exact_repr: true, class: "lower-exp" });
        v.push(Rendering { name: "{:E}", text: ue, exact_repr: true, class: "upper-exp" });
        v.push(Rendering { name: "{:E} on ref", text: ue_ref, exact_repr: true, class: "upper-exp" });
        v.push(Rendering { name: "to_scientific_notation", text: sci, exact_repr: true, class: "sci" });
        v.push(Rendering { name: "write_scientific_notation", text: wsci, exact_repr: true, class: "sci" });
        v.push(Rendering { name: "to_engineering_notation", text: eng, exact_repr: false, class: "eng" });
        v.push(Rendering { name: "write_engineering_notation", text: weng, exact_repr: false, class: "eng" });
        if plain_ok {
            let plain = b.to_plain_string();
            let mut wplain = String::new();
            b.write_plain_string(&mut wplain).unwrap();
            v.push(Rendering { name: "to_plain_string", text: plain, exact_repr: true, class: "plain" });
            v.push(Rendering { name: "write_plain_string", text: wplain, exact_repr: true, class: "plain" });
        }
        v
    });
    ctx.more_evals(11);
    let rs = match rendered {
        Ok(v) => v,
        Err(p) => {
            ctx.fail("render/panic", case, format!("rendering {} panicked: {}", d.tok(), p));
            ctx.end_case(case.hash(), !zero);
            return;
        }
    };
    for r in &rs {
        ctx.out(&r.text);
    }
    // (every rendering is judged on its own below: the statement does not require value / reference / write_*
    // variants to be textually identical, nor {:E} to be {:e} with a capital letter)

    for r in &rs {
        let parsed = ctx.guard(|| BigDecimal::from_str(&r.text));
        match parsed {
            Err(p) => ctx.fail(&format!("{}/parse-panic", r.class), case, format!("parsing {:?} (from `{}`) panicked: {}", r.text, r.name, p)),
            Ok(Err(e)) => ctx.fail(&format!("{}/does-not-parse", r.class), case, format!("`{}` of {} gives {:?} which does not parse: {}", r.name, d.tok(), r.text, e)),
            Ok(Ok(back)) => {
                let bd = Dec::of(&back);
                if !model::eq_dec(&bd, &d) {
                    ctx.fail(&format!("{}/value-changed", r.class), case, format!("`{}` of {} gives {:?} which parses to {}", r.name, d.tok(), r.text, bd.tok()));
                    continue;
                }
                ctx.ok();
                if r.exact_repr {
                    if bd == d {
                        ctx.ok();
                    } else {
                        // classify for the known findings (DESIGN.md section 6, K1 / K2)
                        let sig = if r.class == "plain" && d.s < 0 {
                            "plain/negative-scale/scale-lost".to_string()
                        } else if r.class == "sci" && zero {
                            "sci/zero/scale-lost".to_string()
                        } else {
                            format!("{}/digits-or-scale-changed", r.class)
                        };
                        ctx.fail(&sig, case, format!("`{}` of {} gives {:?} which parses to {} (same value, different digits/scale)", r.name, d.tok(), r.text, bd.tok()));
                    }
                }
            }
        }
    }

    // Display (on the value and on the reference): bounded length and notation switch exactly at the documented thresholds
    let (lower, upper) = thresholds();
    let leading_zeros: i128 = if d.s > 0 { (d.s as i128 - digits as i128).max(0) } else { 0 };
    let trailing_zeros: i128 = if d.s < 0 { -(d.s as i128) } else { 0 };
    let want_exp = leading_zeros > lower || trailing_zeros > upper;
    for idx in [0usize, 1] {
        let disp = &rs[idx].text;
        let which = rs[idx].name;
        ctx.check(disp.len() as i128 <= digits as i128 + 33 + lower.max(upper), "display/too-long", case, || format!("`{}` of {} has {} chars for {} digits", which, d.tok(), disp.len(), digits));
        let has_exp = disp.contains('e') || disp.contains('E');
        ctx.check(has_exp == want_exp, "display/notation-threshold", case, || format!(
            "`{}` of {} is {:?}: exponent form = {}, but it has {} leading / {} trailing zeros (thresholds {} / {})", which, d.tok(), disp, has_exp, leading_zeros, trailing_zeros, lower, upper));
        if !has_exp {
            // positional output: sign, digits, at most one point, nothing else
            let body = disp.strip_prefix('-').unwrap_or(disp);
            ctx.check(body.chars().all(|c| c.is_ascii_digit() || c == '.') && body.matches('.').count() <= 1 && (d.n.is_negative() == disp.starts_with('-')),
                "display/malformed", case, || format!("`{}` of {} is {:?}", which, d.tok(), disp));
        }
    }
    // engineering: exponent multiple of three, 1..3 integer digits
    if !zero {
        for eng in [&rs[8].text, &rs[9].text] {
        if let Some((mant, exp)) = eng.split_once('e') {
            let e: i128 = exp.parse().unwrap_or(1);
            let int_part = mant.trim_start_matches('-').split('.').next().unwrap_or("");
            ctx.check(e % 3 == 0 && (1..=3).contains(&int_part.len()), "eng/shape", case, || format!("engineering notation of {} is {:?}", d.tok(), eng));
        } else {
            ctx.fail("eng/shape", case, format!("engineering notation of {} is {:?} (no exponent)", d.tok(), eng));
        }
        }
        for sci in [&rs[6].text, &rs[7].text] {
        if let Some((mant, _)) = sci.split_once('e') {
            let int_part = mant.trim_start_matches('-').split('.').next().unwrap_or("");
            ctx.check(int_part.len() == 1 && int_part != "0", "sci/shape", case, || format!("scientific notation of {} is {:?}", d.tok(), sci));
        } else {
            ctx.fail("sci/shape", case, format!("scientific notation of {} is {:?} (no exponent)", d.tok(), sci));
        }
        }
    }
    ctx.end_case(case.hash(), !zero);
    if ctx.want_sample() && !zero && d.s != 0 {
        ctx.sample(case, format!("{{}}={:?} {{:e}}={:?} sci={:?} eng={:?}: all parse back to the same decimal", rs[0].text, rs[2].text, rs[6].text, rs[8].text));
    }
}

//! C19 — programs of exact operations give exact results whatever the intermediate forms
//!
//! A history is a straight-line program on one accumulator.  The model evaluates the same program
//! exactly; after every step value, ==, cmp and Hash of the accumulator are compared with a fresh
//! model-built representation.  A failing history is minimised before it is recorded.

use crate::gen::{self, ndigits, pow10, Dec, Rng};
use crate::model;
use crate::monitor::{Case, Ctx};
use crate::util::RecordingHasher;
use crate::{PropDef, Tier, Unit};
use bigdecimal::{BigDecimal, Signed};
use num_bigint::BigInt;
use num_traits::{One, Zero};
use std::cmp::Ordering;
use std::hash::Hash;
use std::panic::{catch_unwind, AssertUnwindSafe};

pub fn def() -> PropDef {
    PropDef {
        id: "C19",
        plan,
        run_unit,
        replay,
        required_probes: &[
            "Add_RhsZero", "Add_LhsZero", "Add_Aligned", "Add_Unaligned", "AddRef_RhsZero", "AddRef_LhsZero", "AddRef_Aligned", "AddRef_Unaligned",
            "AddAssign_Less", "AddAssign_Greater", "AddAssign_Equal", "Norm_Zero", "Norm_Trim", "Hash_Zero", "Hash_Trim", "Hash_AppendZeros",
            "Eq_WordLoop", "Eq_DigitWise", "Cmp_DigitWise", "WithScale_Up",
        ],
        rule: "seeded straight-line programs of 1..40 steps on one accumulator over a pool of operands (random decimals, zeros carrying a scale, ones written 1.00, powers of ten, value-equal twins of the current accumulator, earlier results); each step picks an operation (add, sub, mul, neg, abs, double, half, square, upward with_scale, normalized, clone through a reference, sum of a slice, add/sub/mul with a primitive - 0, +-1, +-2 and every width's MIN / MAX and the first value past each narrower type up to u128::MAX - or a big integer) and one of its overload / compound-assignment forms at random; the model evaluates the same program exactly and after EVERY step the accumulator must be value-equal to the model and ==, cmp and the Hash byte stream of the accumulator against a fresh model-built representation must say equal / Equal / identical, also through reference views of the accumulator (plain, abs(), negated); failing histories are minimised (steps dropped while the failure persists). distinct = distinct programs; non-trivial = programs with at least 3 steps whose final value is non-zero",
    }
}

fn plan(tier: Tier) -> Vec<Unit> {
    match tier {
        Tier::Quick => crate::util::split_budget("programs", 40_000, 400),
        Tier::Thorough => crate::util::split_budget("programs", 1_600_000, 2_500),
        Tier::Miri => crate::util::split_budget("programs", 4, 2),
    }
}

#[derive(Clone, Debug)]
struct Step {
    op: String,
    form: u32,
    arg: String,
}

impl Step {
    fn tok(&self) -> String { format!("{}|{}|{}", self.op, self.form, self.arg) }
    fn from_tok(t: &str) -> Option<Step> {
        let mut it = t.splitn(3, '|');
        Some(Step { op: it.next()?.to_string(), form: it.next()?.parse().ok()?, arg: it.next()?.to_string() })
    }
}

const PRIMS: &[&str] = &["0", "1", "-1", "2", "-2", "7", "10", "100", "-128", "255", "65535", "-2147483648", "4294967295", "9223372036854775807", "-9223372036854775808", "18446744073709551615", "170141183460469231731687303715884105727",
    // each width's other extreme and the first values past a narrower type: i8/i16 limits, 2^32, 2^63, 2^64, i128::MIN, 2^127, u128::MAX
    "127", "-32768", "32767", "4294967296", "9223372036854775808", "18446744073709551616", "-170141183460469231731687303715884105728",
    "170141183460469231731687303715884105728", "340282366920938463463374607431768211455", "340282366920938463463374607431768211455"];

fn gen_operand(r: &mut Rng, acc: &Dec, history: &[Dec]) -> Dec {
    match r.below(10) {
        0 => Dec::new(BigInt::zero(), r.range(-60, 60)),
        1 => { let k = r.range(0, 30); Dec::new(pow10(k as u64), k) }              // one written 1.000
        2 => Dec::new(pow10(r.below(40)), r.range(-40, 40)),                        // power of ten
        3 => { let k = r.range(0, 45); Dec::new(&acc.n * pow10(k as u64), acc.s + k) } // twin of the accumulator
        4 => { let k = r.range(0, 30); Dec::new(-(&acc.n * pow10(k as u64)), acc.s + k) } // minus twin (cancels to a zero with scale)
        5 if !history.is_empty() => r.pick(history).clone(),
        6 => Dec::new(gen::int_nonzero(r, 12), -r.range(1, 30)),                    // negative scale
        _ => { let lm = if r.chance(1, 10) { 300 } else { 25 }; gen::dec(r, lm, 60) }
    }
}

fn gen_program(r: &mut Rng) -> (Dec, Vec<Step>) {
    let init = match r.below(4) { 0 => Dec::new(BigInt::zero(), r.range(-20, 20)), 1 => Dec::new(pow10(r.below(5)), r.range(0, 5)), _ => gen::dec(r, 30, 40) };
    let len = 1 + r.below(40) as usize;
    let mut steps = vec![];
    // shadow evaluation in the model so that twins / growth limits can be computed while generating
    let mut m = init.clone();
    let mut history: Vec<Dec> = vec![];
    for _ in 0..len {
        let big = ndigits(&m.n) > 1500 || m.s.unsigned_abs() > 3000;
        let op = match r.below(20) {
            0..=3 => "add", 4..=6 => "sub", 7..=8 => if big { "add" } else { "mul" },
            9 => "neg", 10 => "abs", 11 => "double", 12 => "half", 13 => if big { "neg" } else { "square" },
            14 => "extend", 15 => "normalize", 16 => "reclone", 17 => "sum",
            18 => *r.pick(&["addp", "subp", "mulp"]),
            _ => *r.pick(&["addi", "subi", "muli"]),
        };
        let (form, arg) = match op {
            "add" | "sub" => (r.below(10) as u32, gen_operand(r, &m, &history).tok()),
            "mul" => (r.below(8) as u32, { let x = gen_operand(r, &m, &history); if ndigits(&x.n) > 400 { Dec::new(BigInt::from(3), 1).tok() } else { x.tok() } }),
            "neg" | "abs" | "reclone" => (r.below(3) as u32, String::new()),
            "double" | "half" | "square" | "normalize" => (0, String::new()),
            "extend" => (r.below(3) as u32, r.range(0, 60).to_string()),
            "sum" => (r.below(2) as u32, format!("{};{}", gen_operand(r, &m, &history).tok(), gen_operand(r, &m, &history).tok())),
            "addp" | "subp" | "mulp" => (r.below(6) as u32 * 16 + r.below(5) as u32, r.pick(PRIMS).to_string()),
            _ => (r.below(6) as u32, if r.chance(1, 4) { r.pick(PRIMS).to_string() } else { gen::int_any(r, 40, 8).to_string() }),
        };
        let st = Step { op: op.to_string(), form, arg };
        if let Some(nm) = model_step(&m, &st) {
            m = nm;
            history.push(m.clone());
            steps.push(st);
        }
    }
    (init, steps)
}

/// exact evaluation of one step (None = malformed step)
fn model_step(m: &Dec, st: &Step) -> Option<Dec> {
    let two = Dec::new(BigInt::from(2), 0);
    Some(match st.op.as_str() {
        "add" => { let x = Dec::from_tok(&st.arg)?; model::add(m, &x) }
        "sub" => { let x = Dec::from_tok(&st.arg)?; if st.form >= 8 { model::sub(&x, m) } else { model::sub(m, &x) } }
        "mul" => { let x = Dec::from_tok(&st.arg)?; model::mul(m, &x) }
        "neg" => m.neg(),
        "abs" => Dec::new(gen::abs(&m.n), m.s),
        "double" => model::mul(m, &two),
        "half" => model::half(m),
        "square" => model::mul(m, m),
        "extend" => { let k: i64 = st.arg.parse().ok()?; Dec::new(&m.n * pow10(k as u64), m.s + k) }
        "normalize" => model::normalize(m),
        "reclone" => m.clone(),
        "sum" => { let (a, b) = st.arg.split_once(';')?; model::add(&model::add(m, &Dec::from_tok(a)?), &Dec::from_tok(b)?) }
        "addp" | "addi" => model::add(m, &Dec::new(st.arg.parse().ok()?, 0)),
        "subp" | "subi" => { let x = Dec::new(st.arg.parse().ok()?, 0); if (st.op == "subp" && (st.form / 16) % 2 == 1) || (st.op == "subi" && st.form % 2 == 1) { model::sub(&x, m) } else { model::sub(m, &x) } }
        "mulp" | "muli" => model::mul(m, &Dec::new(st.arg.parse().ok()?, 0)),
        _ => return None,
    })
}

macro_rules! prim_apply {
    ($acc:ident, $op:expr, $form:expr, $v:expr) => {{
        let v = $v;
        match ($op, $form) {
            ("addp", 0) => $acc + v, ("addp", 1) => v + $acc, ("addp", 2) => { let mut a = $acc; a += v; a }, ("addp", 3) => &$acc + v, ("addp", 4) => v + &$acc, ("addp", _) => { let mut a = $acc; a += &v; a },
            ("subp", 0) => $acc - v, ("subp", 1) => v - $acc, ("subp", 2) => { let mut a = $acc; a -= v; a }, ("subp", 3) => v - &$acc, ("subp", 4) => &$acc - v, ("subp", _) => &v - $acc,
            ("mulp", 0) => $acc * v, ("mulp", 1) => v * $acc, ("mulp", 2) => { let mut a = $acc; a *= v; a }, ("mulp", 3) => &$acc * v, ("mulp", 4) => v * &$acc, (_, _) => { let mut a = $acc; a *= &v; a },
        }
    }};
}

/// the same step on the real crate, with the overload chosen by `form`
fn real_step(acc: BigDecimal, st: &Step) -> Option<BigDecimal> {
    Some(match st.op.as_str() {
        "add" => {
            let x = Dec::from_tok(&st.arg)?.bd();
            match st.form {
                0 => acc + x, 1 => acc + &x, 2 => &acc + x, 3 => &acc + &x, 4 => acc.to_ref() + x.to_ref(),
                5 => { let mut a = acc; a += x; a } 6 => { let mut a = acc; a += &x; a } 7 => { let mut a = acc; a += x.to_ref(); a }
                8 => x + acc, _ => &x + acc.to_ref(),
            }
        }
        "sub" => {
            let x = Dec::from_tok(&st.arg)?.bd();
            match st.form {
                0 => acc - x, 1 => acc - &x, 2 => &acc - x, 3 => &acc - &x, 4 => acc.to_ref() - x.to_ref(),
                5 => { let mut a = acc; a -= x; a } 6 => { let mut a = acc; a -= &x; a } 7 => { let mut a = acc; a -= x.to_ref(); a }
                8 => x - acc, _ => &x - acc.to_ref(),
            }
        }
        "mul" => {
            let x = Dec::from_tok(&st.arg)?.bd();
            match st.form {
                0 => acc * x, 1 => acc * &x, 2 => &acc * x, 3 => &acc * &x,
                4 => { let mut a = acc; a *= x; a } 5 => { let mut a = acc; a *= &x; a } 6 => x * acc, _ => &x * &acc,
            }
        }
        "neg" => match st.form { 0 => -acc, 1 => -&acc, _ => (-acc.to_ref()).to_owned() },
        "abs" => match st.form { 0 => BigDecimal::abs(&acc), 1 => Signed::abs(&acc), _ => acc.to_ref().abs().to_owned() },
        "double" => acc.double(),
        "half" => acc.half(),
        "square" => acc.square(),
        "extend" => {
            let k: i64 = st.arg.parse().ok()?;
            let s = acc.fractional_digit_count() + k;
            match st.form { 0 => acc.with_scale(s), 1 => acc.with_scale_round(s, bigdecimal::RoundingMode::HalfEven), _ => acc.to_ref().to_owned_with_scale(s) }
        }
        "normalize" => acc.normalized(),
        "reclone" => match st.form { 0 => acc.to_ref().to_owned(), 1 => { let mut d = BigDecimal::from(5); acc.to_ref().clone_into(&mut d); d } _ => acc.clone() },
        "sum" => {
            let (a, b) = st.arg.split_once(';')?;
            let (a, b) = (Dec::from_tok(a)?.bd(), Dec::from_tok(b)?.bd());
            if st.form == 0 { vec![acc, a, b].into_iter().sum::<BigDecimal>() } else { [acc, a, b].iter().sum::<BigDecimal>() }
        }
        "addp" | "subp" | "mulp" => {
            let n: BigInt = st.arg.parse().ok()?;
            let f = st.form / 16;
            let ty = st.form % 16;
            use num_traits::ToPrimitive;
            let op = st.op.as_str();
            // pick the narrowest listed type that holds the value, rotated by `ty`
            if let (0, Some(v)) = (ty, n.to_u8()) { prim_apply!(acc, op, f, v) }
            else if let (1, Some(v)) = (ty, n.to_i8()) { prim_apply!(acc, op, f, v) }
            else if let (0..=2, Some(v)) = (ty, n.to_i32()) { prim_apply!(acc, op, f, v) }
            else if let (0..=3, Some(v)) = (ty, n.to_u32()) { prim_apply!(acc, op, f, v) }
            else if let (0..=3, Some(v)) = (ty, n.to_i64()) { prim_apply!(acc, op, f, v) }
            else if let (_, Some(v)) = (ty, n.to_u64()) { if ty == 4 { prim_apply!(acc, op, f, v as u128) } else { prim_apply!(acc, op, f, v) } }
            else if let Some(v) = n.to_i128() { prim_apply!(acc, op, f, v) }
            else { prim_apply!(acc, op, f, n.to_u128()?) }
        }
        "addi" => { let i: BigInt = st.arg.parse().ok()?; match st.form { 0 => acc + i, 1 => i + acc, 2 => { let mut a = acc; a += i; a } 3 => &acc + &i, 4 => &i + acc, _ => i + acc.to_ref() } }
        "subi" => { let i: BigInt = st.arg.parse().ok()?; match st.form { 0 => acc - i, 1 => i - acc, 2 => { let mut a = acc; a -= i; a } 3 => &i - acc, 4 => &acc - &i, _ => i - acc.to_ref() } }
        "muli" => { let i: BigInt = st.arg.parse().ok()?; match st.form { 0 => acc * i, 1 => i * acc, 2 => { let mut a = acc; a *= i; a } 3 => &acc * &i, 4 => &i * &acc, _ => { let mut a = acc; a *= &i; a } } }
        _ => return None,
    })
}

fn hash_bytes(b: &BigDecimal) -> (Vec<u8>, Vec<usize>) {
    let mut h = RecordingHasher::default();
    b.hash(&mut h);
    (h.bytes, h.writes)
}

/// run a program; Err((step index, signature, detail)) on the first failing step
fn run_program(init: &Dec, steps: &[Step], evals: &mut u64, digest: &mut Vec<BigDecimal>) -> Result<Dec, (usize, String, String)> {
    crate::monitor::enter_guard();
    let r = run_program_inner(init, steps, evals, digest);
    crate::monitor::leave_guard();
    r
}

fn run_program_inner(init: &Dec, steps: &[Step], evals: &mut u64, digest: &mut Vec<BigDecimal>) -> Result<Dec, (usize, String, String)> {
    let mut acc = init.bd();
    let mut m = init.clone();
    for (i, st) in steps.iter().enumerate() {
        let nm = match model_step(&m, st) { Some(x) => x, None => return Err((i, "harness/malformed-step".into(), st.tok())) };
        let a = acc.clone();
        *evals += 1;
        let r = catch_unwind(AssertUnwindSafe(|| real_step(a, st)));
        let next = match r {
            Err(_) => return Err((i, "step/panic".into(), format!("step {} `{}` panicked on accumulator {}", i, st.tok(), Dec::of(&acc).tok()))),
            Ok(None) => return Err((i, "harness/malformed-step".into(), st.tok())),
            Ok(Some(v)) => v,
        };
        let got = Dec::of(&next);
        if !model::eq_dec(&got, &nm) {
            return Err((i, format!("step/{}/wrong-value", st.op), format!("step {} `{}` on {} gave {} but the exact result is {}", i, crate::monitor::abbreviate(&st.tok(), 120), crate::monitor::abbreviate(&Dec::of(&acc).tok(), 120), crate::monitor::abbreviate(&got.tok(), 120), crate::monitor::abbreviate(&nm.tok(), 120))));
        }
        // comparisons and hashes along the way, against fresh model-built representations
        let fresh = [nm.bd(), model::normalize(&nm).bd(), Dec::new(&nm.n * pow10(3), nm.s + 3).bd()];
        *evals += 15;
        let chk = catch_unwind(AssertUnwindSafe(|| {
            let hb = hash_bytes(&next);
            for f in fresh.iter() {
                if !(next == *f) || !(*f == next) { return Some(("step/eq-disagrees", format!("accumulator {} == fresh {} is false", got.tok(), Dec::of(f).tok()))); }
                if next.cmp(f) != Ordering::Equal || f.cmp(&next) != Ordering::Equal { return Some(("step/cmp-disagrees", format!("accumulator {} cmp fresh {} is not Equal", got.tok(), Dec::of(f).tok()))); }
                if hash_bytes(f) != hb { return Some(("step/hash-disagrees", format!("accumulator {} and the equal value {} feed different data to a Hasher", got.tok(), Dec::of(f).tok()))); }
            }
            // the same through reference views of the accumulator, plain and transformed (|x|, -x)
            {
                let r = next.to_ref();
                let fr = fresh[2].to_ref();
                if !(r == fr) || r.cmp(&fr) != Ordering::Equal { return Some(("step/ref-view-disagrees", format!("reference view of the accumulator {} vs the equal value {}: == {} cmp {:?}", got.tok(), Dec::of(&fresh[2]).tok(), r == fr, r.cmp(&fr)))); }
                let absf = BigDecimal::new(nm.n.abs() * pow10(2), nm.s + 2);
                let negf = BigDecimal::new(-&nm.n, nm.s);
                let (ra, rn) = (r.abs(), -r);
                if !(ra == absf.to_ref()) || ra.cmp(&absf.to_ref()) != Ordering::Equal { return Some(("step/ref-view-disagrees", format!("|accumulator| as a reference view ({}) vs the exact {}: == {} cmp {:?}", got.tok(), Dec::of(&absf).tok(), ra == absf.to_ref(), ra.cmp(&absf.to_ref())))); }
                if !(rn == negf.to_ref()) || rn.cmp(&negf.to_ref()) != Ordering::Equal { return Some(("step/ref-view-disagrees", format!("-accumulator as a reference view ({}) vs the exact {}: == {} cmp {:?}", got.tok(), Dec::of(&negf).tok(), rn == negf.to_ref(), rn.cmp(&negf.to_ref())))); }
            }
            // unequal neighbours written with more digits must not compare equal (scaled comparison paths)
            for (extra, tail) in [(1i64, 5i32), (1, 1), (3, 1), (25, 1)] {
                let up = BigDecimal::new(&nm.n * pow10(extra as u64) + tail, nm.s + extra);
                if next == up || up == next || next.cmp(&up) != Ordering::Less || up.cmp(&next) != Ordering::Greater {
                    return Some(("step/cmp-disagrees", format!("accumulator {} vs the larger value {}: == {} cmp {:?}", got.tok(), Dec::of(&up).tok(), next == up, next.cmp(&up))));
                }
            }
            // an unequal neighbour must not compare equal
            let nb = BigDecimal::new(&nm.n + 1, nm.s);
            if next == nb || next.cmp(&nb) != Ordering::Less { return Some(("step/cmp-disagrees", format!("accumulator {} vs its upper neighbour: == {} cmp {:?}", got.tok(), next == nb, next.cmp(&nb)))); }
            None
        }));
        match chk {
            Err(_) => return Err((i, "step/compare-or-hash-panic".into(), format!("==, cmp or Hash panicked after step {} `{}` on value {}", i, st.tok(), got.tok()))),
            Ok(Some((sig, detail))) => return Err((i, sig.into(), format!("after step {} `{}`: {}", i, crate::monitor::abbreviate(&st.tok(), 100), crate::monitor::abbreviate(&detail, 400)))),
            Ok(None) => {}
        }
        digest.push(next.clone());
        acc = next;
        m = nm;
    }
    Ok(m)
}

fn to_case(init: &Dec, steps: &[Step]) -> Case {
    let mut c = Case::new("program").push(init.tok());
    for s in steps { c = c.push(s.tok()); }
    c
}

fn minimise(init: &Dec, steps: &[Step], sig: &str) -> Vec<Step> {
    let mut cur: Vec<Step> = steps.to_vec();
    let mut changed = true;
    let mut budget = 400;
    while changed && budget > 0 {
        changed = false;
        let mut i = 0;
        while i < cur.len() && budget > 0 {
            let mut cand = cur.clone();
            cand.remove(i);
            budget -= 1;
            let mut e = 0;
            let mut dg = vec![];
            match run_program(init, &cand, &mut e, &mut dg) {
                Err((_, s, _)) if s == sig => { cur = cand; changed = true; }
                _ => { i += 1; }
            }
        }
    }
    cur
}

fn run_unit(unit: &Unit, r: &mut Rng, ctx: &mut Ctx) {
    for _ in 0..unit.count {
        let (init, steps) = gen_program(r);
        let case = to_case(&init, &steps);
        check_case(&case, ctx);
    }
}

fn replay(case: &Case, ctx: &mut Ctx) {
    check_case(case, ctx);
}

pub fn check_case(case: &Case, ctx: &mut Ctx) {
    let init = match Dec::from_tok(case.arg(0)) { Some(d) => d, None => return };
    let steps: Vec<Step> = case.toks[2..].iter().filter_map(|t| Step::from_tok(t)).collect();
    ctx.begin_case(case);
    let mut evals = 0u64;
    let mut outs = vec![];
    let res = run_program(&init, &steps, &mut evals, &mut outs);
    ctx.more_evals(evals);
    for o in &outs { ctx.out_bd(o); }
    match res {
        Ok(fin) => {
            ctx.held += steps.len() as u64 * 4;
            let nontrivial = steps.len() >= 3 && !fin.n.is_zero();
            ctx.end_case(case.hash(), nontrivial);
            ctx.note_n("steps-checked", steps.len() as u64);
            if ctx.want_sample() && nontrivial && steps.len() <= 8 {
                ctx.sample(case, format!("{} steps, final value {}; value, ==, cmp and hash agreed with the model after every step", steps.len(), crate::monitor::abbreviate(&fin.tok(), 120)));
            }
        }
        Err((i, sig, detail)) => {
            if sig.starts_with("harness/") {
                ctx.note("harness-malformed-step");
                ctx.end_case(case.hash(), false);
                return;
            }
            // minimise the history before recording it
            let upto: Vec<Step> = steps[..=i].to_vec();
            let min = minimise(&init, &upto, &sig);
            let mcase = to_case(&init, &min);
            let mut e = 0;
            let mut dg = vec![];
            let detail = match run_program(&init, &min, &mut e, &mut dg) { Err((_, _, d)) => d, Ok(_) => detail };
            ctx.fail(&sig, &mcase, format!("history of {} steps (minimised from {}): {}", min.len(), i + 1, detail));
            ctx.end_case(case.hash(), true);
        }
    }
    let _ = BigInt::one();
}

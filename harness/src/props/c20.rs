//! C20 — compile-time configuration is honoured by every default-context operation
//!
//! This binary is rebuilt by the driver under each RUST_BIGDECIMAL_* configuration; the intended
//! values arrive as `--cfg key=value` parameters.  Inside, the monitors of the other properties are
//! reused: their default-context checks read the same parameters, so "default operation == explicit
//! operation with the configured values == reference model" is judged under every configuration.

use crate::gen::{self, ndigits, pow10, Dec, Rng};
use crate::model::{self, mode_from_name, mode_name};
use crate::monitor::{Case, Ctx};
use crate::props::{c06, c08, c10, c11, c12, c13, c16};
use crate::{PropDef, Tier, Unit};
use bigdecimal::{BigDecimal, Context, RoundingMode};
use num_bigint::BigInt;
use num_traits::Zero;

pub fn def() -> PropDef {
    PropDef {
        id: "C20",
        plan,
        run_unit,
        replay,
        required_probes: &["Fmt_Exponential", "Fmt_Dotless", "Fmt_FullScale", "Fmt_IntPad", "Fmt_IntPadLimit", "Div_Inexact", "Sqrt_Sticky", "Cbrt_Inexact", "Exp_Positive", "Exp_Negative"],
        rule: "per build configuration (precision P, rounding mode M, Display thresholds L/U, padding limit X; the driver rebuilds this binary under each): Context::default() and RoundingMode::default() report (P, M); seeded inputs with tie / near-tie tails through sqrt(), cbrt(), inverse(), round(n), {:.N}, {:.Ne} compared with the explicit-context operation at (P, M) and with the reference model; a / b judged with P in place of 100, exhaustively for all numerators and denominators below 1000 when P <= 3; exp() has at most P significant digits and is within one unit of the P-th digit of decimal's exp (offline); Display switches to exponent form exactly when leading zeros > L or trailing zeros > U for values with 0..L+3 leading and 0..U+3 trailing zeros; {:.N} of k*10^j pads exactly when j+N+1 <= X. distinct = distinct (configuration, case) pairs; non-trivial = the case's outcome depends on the configured value",
    }
}

fn cfg_precision() -> u64 { crate::param("precision").and_then(|p| p.parse().ok()).unwrap_or(100) }
fn cfg_mode() -> RoundingMode { crate::param("mode").and_then(|m| mode_from_name(&m)).unwrap_or(RoundingMode::HalfEven) }
fn cfg_lower() -> i64 { crate::param("lower").and_then(|p| p.parse().ok()).unwrap_or(5) }
fn cfg_upper() -> i64 { crate::param("upper").and_then(|p| p.parse().ok()).unwrap_or(15) }
fn cfg_padding() -> i64 { crate::param("padding").and_then(|p| p.parse().ok()).unwrap_or(1000) }

fn plan(tier: Tier) -> Vec<Unit> {
    let scale = match tier { Tier::Quick => 1, Tier::Thorough => 6, Tier::Miri => 0 };
    let mut v = vec![Unit { kind: "defaults", start: 0, count: 1, param: 0 }];
    if tier == Tier::Miri { return v; }
    v.extend(crate::util::split_budget("round", 3_000 * scale, 500));
    v.extend(crate::util::split_budget("roots", 1_500 * scale, 250));
    v.extend(crate::util::split_budget("division", 3_000 * scale, 500));
    if cfg_precision() <= 3 {
        v.extend(crate::util::split_budget("division-small", 999, 37));
    }
    v.extend(crate::util::split_budget("exp", 120 * scale.min(3), 10));
    v.extend(crate::util::split_budget("display", 2_000 * scale, 500));
    v.extend(crate::util::split_budget("format", 2_000 * scale, 500));
    v
}

fn tie_heavy_decimal(r: &mut Rng) -> Dec {
    // inputs on which the rounding mode matters: ...5 / ...50 / ...49 / ...51 tails
    let keep = 1 + r.below(12) as usize;
    let mut ds = gen::digit_string(r, keep);
    ds.push_str(*r.pick(&["5", "50", "500", "49", "51", "05", "95", "4999", "5001", "15", "25"]));
    let n: BigInt = ds.parse().unwrap();
    Dec::new(if r.bool() { -n } else { n }, r.range(0, ds.len() as i64 + 2))
}

fn run_unit(unit: &Unit, r: &mut Rng, ctx: &mut Ctx) {
    let p = cfg_precision();
    let m = cfg_mode();
    match unit.kind {
        "defaults" => {
            let case = Case::new("defaults");
            ctx.begin_case(&case);
            match ctx.guard(|| (Context::default().precision().get(), Context::default().rounding_mode(), RoundingMode::default())) {
                Err(pn) => ctx.fail("defaults/panic", &case, format!("Context::default panicked: {}", pn)),
                Ok((gp, gm, gm2)) => {
                    ctx.out(&format!("{} {:?} {:?}", gp, gm, gm2));
                    ctx.check(gp == p, "defaults/precision", &case, || format!("Context::default().precision() = {} but the build was configured with {}", gp, p));
                    ctx.check(gm == m && gm2 == m, "defaults/rounding-mode", &case, || format!("Context::default().rounding_mode() = {:?}, RoundingMode::default() = {:?} but the build was configured with {}", gm, gm2, mode_name(m)));
                }
            }
            ctx.end_case(case.hash(), true);
            ctx.sample(&case, format!("Context::default() = ({}, {})", p, mode_name(m)));
        }
        "round" => {
            for _ in 0..unit.count {
                let d = if r.bool() { tie_heavy_decimal(r) } else { gen::dec(r, 40, 60) };
                let t = if r.bool() { d.s - 1 - r.range(0, 2) } else { c06::gen_target(r, &d) };
                let case = Case::new("wsr").push(d.tok()).push(t).push(mode_name(m));
                c06::check_case(&case, ctx);
            }
        }
        "roots" => {
            for i in 0..unit.count {
                match r.below(3) {
                    0 => {
                        let x = c10::gen_radicand(r, 2, p, i);
                        c10::check_case(&Case::new("sqrt").push(x.tok()).push(p).push(mode_name(m)), ctx);
                    }
                    1 => {
                        let mut x = c10::gen_radicand(r, 3, p, i);
                        if r.bool() { x = x.neg(); }
                        c11::check_case(&Case::new("cbrt").push(x.tok()).push(p).push(mode_name(m)), ctx);
                    }
                    _ => {
                        let (mut x, _) = c12::gen_x(r, i);
                        if r.bool() { x = x.neg(); }
                        c12::check_case(&Case::new("inverse").push(x.tok()).push(p).push(mode_name(m)).push(r.next() % 12), ctx);
                    }
                }
            }
        }
        "division" => {
            for i in 0..unit.count {
                let (a, b) = if r.bool() {
                    // quotients whose length straddles the configured precision
                    let l = (p as i64 + r.range(-2, 2)).max(1) as usize;
                    let q = Dec::new(gen::digit_string(r, l).parse::<BigInt>().unwrap(), r.range(-5, 5));
                    let b = gen::dec_nonzero(r, 6, 6);
                    (model::mul(&q, &b), b)
                } else { c08::gen_pair(r, i) };
                c08::check_case(&Case::new("pair").push(a.tok()).push(b.tok()), ctx);
            }
        }
        "division-small" => {
            for a in unit.start + 1..unit.start + unit.count + 1 {
                for b in 1..1000u32 {
                    let case = Case::new("pair").push(Dec::new(BigInt::from(a), 0).tok()).push(Dec::new(BigInt::from(b), 0).tok());
                    c08::check_case(&case, ctx);
                }
            }
            if unit.start == 0 {
                ctx.exhaustive_notes.push("C20: a / b for all numerators and denominators 1..999 under the configured precision (P <= 3)".into());
            }
        }
        "exp" => {
            for _ in 0..unit.count {
                let x = c13::gen_arg(r, 60);
                // long arguments are slow and add nothing configuration-specific
                let x = if ndigits(&x.n) > 60 { Dec::new(BigInt::from(r.range(-600, 600)), 1) } else { x };
                c13::check_case(&Case::new("exp").push(x.tok()), ctx);
            }
        }
        "display" => {
            let (lo, up) = (cfg_lower(), cfg_upper());
            for _ in 0..unit.count {
                let n = gen::int_nonzero(r, 8);
                let d = if r.bool() {
                    let lead = r.range(0, lo + 3);
                    Dec::new(n.clone(), ndigits(&n) as i64 + lead)
                } else {
                    let tz = r.range(0, up + 3);
                    if r.bool() { Dec::new(n, -tz) } else { Dec::new(n * pow10(tz as u64), 0) }
                };
                check_display(&Case::new("value").push(d.tok()), ctx);
            }
        }
        "format" => {
            let pad = cfg_padding();
            for _ in 0..unit.count {
                let (d, prec) = match r.below(3) {
                    0 => {
                        // k * 10^j with j + N + 1 around the padding limit
                        let n = gen::int_nonzero(r, 6);
                        let nfrac = r.range(0, 6);
                        let j = (pad - nfrac - 1 + r.range(-3, 3)).max(0);
                        (Dec::new(n, -j), nfrac as usize)
                    }
                    1 => { let d = tie_heavy_decimal(r); let pr = (d.s - 1 - r.range(0, 1)).max(0) as usize; (d, pr) }
                    _ => c16::gen_case(r),
                };
                c16::check_case(&Case::new("fmt").push(d.tok()).push(prec), ctx);
            }
        }
        _ => {}
    }
    let _ = BigDecimal::zero();
}

/// Display switches to exponent form exactly at the configured zero counts, and still denotes the value
fn check_display(case: &Case, ctx: &mut Ctx) {
    let d = match Dec::from_tok(case.arg(0)) { Some(d) => d, None => return };
    ctx.begin_case(case);
    let b = d.bd();
    let (lo, up) = (cfg_lower() as i128, cfg_upper() as i128);
    match ctx.guard(|| (format!("{}", b), format!("{}", b.to_ref()))) {
        Err(pn) => ctx.fail("display/panic", case, format!("Display of {} panicked: {}", d.tok(), pn)),
        Ok((s, sr)) => {
            ctx.more_evals(1);
            ctx.out(&s);
            let digits = ndigits(&d.n) as i128;
            let leading: i128 = if d.s > 0 { (d.s as i128 - digits).max(0) } else { 0 };
            let trailing: i128 = if d.s < 0 { -(d.s as i128) } else { 0 };
            let want_exp = leading > lo || trailing > up;
            for (which, s) in [("value", &s), ("reference", &sr)] {
                let has_exp = s.contains('e') || s.contains('E');
                ctx.check(has_exp == want_exp, "display/notation-threshold", case, || format!("Display ({}) of {} is {:?}: exponent form = {}, with {} leading / {} trailing zeros and configured thresholds {} / {}", which, d.tok(), s, has_exp, leading, trailing, lo, up));
                let back = crate::props::c05::recognise(s.as_bytes()).and_then(|(neg, dg, sc)| BigInt::parse_bytes(&dg, 10).map(|n| Dec::new(if neg { -n } else { n }, sc)));
                ctx.check(back.as_ref().map(|x| model::eq_dec(x, &d)).unwrap_or(false), "display/value-changed", case, || format!("Display ({}) of {} is {:?}", which, d.tok(), s));
            }
        }
    }
    ctx.end_case(case.hash(), !d.n.is_zero());
    if ctx.want_sample() {
        ctx.sample(case, format!("Display = {:?} under thresholds {} / {}", format!("{}", b), lo, up));
    }
}

fn replay(case: &Case, ctx: &mut Ctx) {
    match case.kind() {
        "defaults" => { let u = Unit { kind: "defaults", start: 0, count: 1, param: 0 }; let mut r = Rng::new(0, 0, 0); run_unit(&u, &mut r, ctx); }
        "wsr" | "ws" | "round" => c06::check_case(case, ctx),
        "sqrt" => c10::check_case(case, ctx),
        "cbrt" => c11::check_case(case, ctx),
        "inverse" => c12::check_case(case, ctx),
        "pair" | "prim" | "zero" => c08::check_case(case, ctx),
        "exp" => { ctx.event_budget = 16; c13::check_case(case, ctx) }
        "value" => check_display(case, ctx),
        "fmt" | "flags" => c16::check_case(case, ctx),
        _ => {}
    }
}

//! C13 — exp(x) is positive and accurate to its last digit for every argument
//!
//! The deciding oracle for accuracy is the offline Python checker (decimal / libmpdec at 150
//! digits) over the event log: every case is logged.  In-process monitors check positivity,
//! exp(0) = 1 and consequences of the statement (reciprocal and monotonicity relations).

use crate::gen::{self, ndigits, pow10, Dec, Rng};
use crate::model;
use crate::monitor::{Case, Ctx};
use crate::{PropDef, Tier, Unit};
use bigdecimal::BigDecimal;
use num_bigint::BigInt;
use num_traits::{One, Signed, Zero};
use std::cmp::Ordering;

pub fn def() -> PropDef {
    PropDef {
        id: "C13",
        plan,
        run_unit,
        replay,
        required_probes: &["Exp_Zero", "Exp_Negative", "Exp_Positive", "Div_Inexact", "WithPrec_Round"],
        rule: "every integer in -N..N (N = 120 quick, 1000 thorough); seeded 1..40-digit arguments with magnitudes 1e-60..1e3 (1e2 quick), both signs; long digit strings (200..600 digits, |x| <= 10); |x| = 10^-k; x = +-k*ln(10) +- eps (e^x crosses a power of ten); ordinary values re-written with up to 150 extra trailing zeros; ordered pairs a few ulps apart. Every exp(x) is logged and judged offline against decimal.Decimal.exp at 150 digits: |r - e^x| <= 1 unit of the 100th significant digit (+1e-140 relative slack); in-process: r > 0, exp(0) == 1 exactly, exp(x)*exp(-x) within 2.5e-99 of 1, x < y => exp(x) <= exp(y) + 2 ulp. distinct = distinct arguments; non-trivial = x != 0",
    }
}

const LN10: &str = "2.30258509299404568401799145468436420760110148862877297603332790096757260967735248023599720508959829834196778404228624863340952546508280675666628736909878168948290720832555468084379989482623319852839350";

fn bound(tier: Tier) -> i64 { match tier { Tier::Quick => 120, Tier::Thorough => 1000, Tier::Miri => 2 } }

fn plan(tier: Tier) -> Vec<Unit> {
    let n = bound(tier);
    match tier {
        Tier::Quick => {
            let mut v = crate::util::split_budget_param("integers", (2 * n + 1) as u64, 4, n);
            v.extend(crate::util::split_budget_param("tiny", 130, 5, n));
            v.extend(crate::util::split_budget_param("spots", 40, 2, n));
            v.extend(crate::util::split_budget_param("random", 1_600, 25, n));
            v.extend(crate::util::split_budget_param("pairs", 300, 20, n));
            v
        }
        Tier::Thorough => {
            // cost grows with |x| (about 0.3 s per call near |x| = 1000) and with the digit count of x:
            // every integer to +-1000, 12 000 seeded arguments of which one in five goes beyond |x| = 120
            let mut v = crate::util::split_budget_param("integers", (2 * n + 1) as u64, 2, n);
            v.extend(crate::util::split_budget_param("tiny", 130, 5, n));
            v.extend(crate::util::split_budget_param("random", 9_600, 20, 120));
            v.extend(crate::util::split_budget_param("random", 2_400, 8, n));
            v.extend(crate::util::split_budget_param("pairs", 1_200, 10, n));
            v
        }
        Tier::Miri => crate::util::split_budget_param("integers", 3, 3, n),
    }
}

fn ln10_dec() -> Dec {
    let frac = &LN10[2..];
    Dec::new(format!("2{}", frac).parse::<BigInt>().unwrap(), frac.len() as i64)
}

pub fn gen_arg(r: &mut Rng, n: i64) -> Dec {
    let sign = |r: &mut Rng, v: BigInt| if r.bool() { -v } else { v };
    match r.below(9) {
        0 | 1 => {
            // 1..40 digits, magnitude 1e-60 .. 10^k (|x| <= n)
            let len = 1 + r.below(40) as i64;
            let m: BigInt = gen::digit_string(r, len as usize).parse().unwrap();
            let maxint = if n >= 1000 { 3 } else { 2 };
            let intdigits = r.range(-60, maxint);
            let d = Dec::new(sign(r, m), len - intdigits);
            clamp(d, n)
        }
        2 => {
            // long digit strings, |x| <= 10 (rare in the quick tier: each costs tens of milliseconds)
            if n < 1000 && !r.chance(1, 12) {
                return Dec::new(BigInt::from(r.range(-1200, 1200)), 1);
            }
            let len = if n < 1000 { 200 + r.below(60) as usize } else { 200 + r.below(401) as usize };
            let m: BigInt = gen::digit_string(r, len).parse().unwrap();
            let intd = r.range(-3, 1);
            Dec::new(sign(r, m), len as i64 - intd)
        }
        3 => {
            let k = r.range(0, 200);
            { let m = BigInt::from(r.range(1, 9)); Dec::new(sign(r, m), k) }
        }
        4 | 5 => {
            // +- k ln10 +- eps
            // (cost grows with digits(x) * |x|^2: the crossing family stops at |x| = 300 and carries 125 digits)
            let kmax = (n.min(300) as f64 / 2.302585093) as i64;
            let k = r.range(1, kmax.max(1));
            let l = ln10_dec();
            let l = Dec::new(&l.n / pow10((l.s - 124) as u64), 124);
            let mut x = Dec::new(&l.n * k, l.s);
            let eps = Dec::new(BigInt::from(r.range(-50, 50)), r.range(90, 140));
            x = model::add(&x, &eps);
            if r.bool() { x = x.neg(); }
            x
        }
        6 => {
            // an ordinary value written with many extra trailing zeros (large scale, small magnitude is NOT implied)
            let m = BigInt::from(r.range(1, 99_999));
            let v = Dec::new(sign(r, m), r.range(0, 6));
            let k = r.range(90, 160);
            clamp(Dec::new(&v.n * pow10(k as u64), v.s + k), n)
        }
        7 => {
            // negative-scale representations of integers
            let v = r.range(1, (n / 10).max(1));
            { let m = BigInt::from(v); Dec::new(sign(r, m), -1) }
        }
        _ => {
            // half-integers and small rationals
            { let m = BigInt::from(r.range(1, 200_000)); clamp(Dec::new(sign(r, m), r.range(1, 4)), n) }
        }
    }
}

fn clamp(d: Dec, n: i64) -> Dec {
    // keep |x| <= n by shifting the scale if needed
    let mut d = d;
    let limit = Dec::new(BigInt::from(n), 0);
    while model::cmp_dec(&Dec::new(d.n.abs(), d.s), &limit) == Ordering::Greater {
        d.s += 1;
    }
    d
}

fn run_unit(unit: &Unit, r: &mut Rng, ctx: &mut Ctx) {
    let n = unit.param;
    match unit.kind {
        "integers" => {
            for idx in unit.start..unit.start + unit.count {
                let v = idx as i64 - n;
                let case = Case::new("exp").push(Dec::new(BigInt::from(v), 0).tok());
                check_case(&case, ctx);
            }
            if unit.start == 0 {
                ctx.exhaustive_notes.push(format!("C13: every integer argument in -{}..{}", n, n));
            }
        }
        "tiny" => {
            // |x| = m * 10^-k for every k in 1..130 and a few mantissas, both signs: arguments whose series has one to a
            // handful of terms, around every "how many digits are enough" boundary (precision/3, /2, precision, ...)
            for idx in unit.start..unit.start + unit.count {
                let k = idx as i64 + 1;
                for m in [1i64, 5, 9, 65, 85, 99, 333, 7001] {
                    for sgn in [1i64, -1] {
                        let case = Case::new("exp").push(Dec::new(BigInt::from(sgn * m), k).tok());
                        check_case(&case, ctx);
                    }
                }
            }
            if unit.start == 0 {
                ctx.exhaustive_notes.push("C13: m * 10^-k for every k in 1..130, m in {1,5,9,65,85,99,333,7001}, both signs".into());
            }
        }
        "spots" => {
            // a few arguments beyond the quick tier's sweep (the thorough tier covers every integer to +-1000)
            for idx in unit.start..unit.start + unit.count {
                let v = 121 + idx as i64 * 22 + (idx as i64 % 3);
                for sgn in [1i64, -1] {
                    let case = Case::new("exp").push(Dec::new(BigInt::from(sgn * v), 0).tok());
                    check_case(&case, ctx);
                }
            }
        }
        "random" => {
            for _ in 0..unit.count {
                let x = gen_arg(r, n);
                let case = Case::new("exp").push(x.tok());
                check_case(&case, ctx);
            }
        }
        "pairs" => {
            for _ in 0..unit.count {
                let x = gen_arg(r, n.min(200));
                // y a few units of the ~100th digit above x
                let nd = ndigits(&x.n) as i64;
                let adj = nd - x.s; // position of the leading digit
                let step = Dec::new(BigInt::from(r.range(1, 30)), 100 - adj.min(5) + r.range(-2, 3));
                let y = model::add(&x, &step);
                let case = Case::new("pair").push(x.tok()).push(y.tok());
                check_case(&case, ctx);
            }
        }
        _ => {}
    }
}

fn replay(case: &Case, ctx: &mut Ctx) {
    ctx.event_budget = 16;
    check_case(case, ctx);
}

fn precision() -> i64 {
    crate::param("precision").and_then(|p| p.parse().ok()).unwrap_or(100)
}

fn ulp100(v: &Dec) -> Dec {
    // one unit of the last (100th by default) significant digit of v
    let adj = ndigits(&v.n) as i64 - 1 - v.s;
    Dec::new(BigInt::one(), -(adj - (precision() - 1)))
}

fn run_exp(ctx: &mut Ctx, case: &Case, x: &Dec) -> Option<Dec> {
    let b = x.bd();
    match ctx.guard(|| b.exp()) {
        Err(p) => {
            if p.contains("verif-loop-cap") {
                ctx.fail("exp/no-progress", case, format!("exp({}) did not converge within the loop guard: {}", x.tok(), p));
            } else {
                ctx.fail("exp/panic", case, format!("exp({}) panicked: {}", x.tok(), p));
            }
            None
        }
        Ok(v) => {
            ctx.out_bd(&v);
            let g = Dec::of(&v);
            ctx.check(g.n.is_positive(), "exp/not-positive", case, || format!("exp({}) = {}", x.tok(), g.tok()));
            if x.n.is_zero() {
                ctx.check(g.n.is_one() && g.s == 0 || model::eq_dec(&g, &Dec::new(BigInt::one(), 0)), "exp/exp-zero-not-one", case, || format!("exp(0) = {}", g.tok()));
            }
            let (xt, gt) = (x.tok(), g.tok());
            let toks = case.toks.clone();
            let prec = precision();
            ctx.check(ndigits(&g.n) as i64 <= prec + 1, "exp/too-many-digits", case, || format!("exp({}) = {} has more than {} significant digits", x.tok(), g.tok(), prec));
            ctx.event(|| serde_json::json!({"p": "C13", "op": "exp", "in": [xt], "out": gt, "prec": prec, "case": toks}).to_string());
            Some(g)
        }
    }
}

pub fn check_case(case: &Case, ctx: &mut Ctx) {
    match case.kind() {
        "exp" => {
            let x = match Dec::from_tok(case.arg(0)) { Some(d) => d, None => return };
            ctx.begin_case(case);
            let g = run_exp(ctx, case, &x);
            // reciprocal relation (a consequence of 1-ulp accuracy of both values)
            if let Some(g) = &g {
                if !x.n.is_zero() && g.n.is_positive() {
                    if let Some(h) = run_exp(ctx, case, &x.neg()) {
                        if h.n.is_positive() {
                            let prod = model::mul(g, &h);
                            let one = Dec::new(BigInt::one(), 0);
                            let err = model::sub(&prod, &one);
                            let tol = Dec::new(BigInt::from(25), precision()); // 2.5e-99 at the default precision
                            let abs = Dec::new(err.n.abs(), err.s);
                            ctx.check(model::cmp_dec(&abs, &tol) != Ordering::Greater, "exp/reciprocal-relation", case, || format!("exp(x)*exp(-x) - 1 = {} for x = {}", err.tok(), x.tok()));
                        }
                    }
                }
            }
            ctx.end_case(case.hash(), !x.n.is_zero());
            if ctx.want_sample() && !x.n.is_zero() {
                if let Some(g) = g { ctx.sample(case, format!("exp = {} (positive; logged for the offline accuracy check)", g.tok())); }
            }
        }
        "pair" => {
            let (x, y) = match (Dec::from_tok(case.arg(0)), Dec::from_tok(case.arg(1))) { (Some(x), Some(y)) => (x, y), _ => return };
            ctx.begin_case(case);
            if model::cmp_dec(&x, &y) == Ordering::Less {
                if let (Some(gx), Some(gy)) = (run_exp(ctx, case, &x), run_exp(ctx, case, &y)) {
                    if gy.n.is_positive() {
                        let u = ulp100(&gy);
                        let bound = model::add(&gy, &Dec::new(&u.n * 2, u.s));
                        ctx.check(model::cmp_dec(&gx, &bound) != Ordering::Greater, "exp/not-monotone", case, || format!("x < y but exp(x) = {} exceeds exp(y) = {} by more than two units in the last place", gx.tok(), gy.tok()));
                    }
                }
            }
            ctx.end_case(case.hash(), true);
        }
        _ => {}
    }
    let _ = BigDecimal::zero();
}

//! C17 — serde round-trips every decimal; JSON numbers are read digit for digit

use crate::gen::{self, ndigits, Dec, Rng};
use crate::model;
use crate::monitor::{Case, Ctx};
use crate::props::c05::recognise;
use crate::{PropDef, Tier, Unit};
use bigdecimal::BigDecimal;
use num_bigint::BigInt;
use num_traits::{One, Zero};
use serde::de::IntoDeserializer;
use serde::{Deserialize, Serialize};

pub fn def() -> PropDef {
    PropDef {
        id: "C17",
        plan,
        run_unit,
        replay,
        required_probes: &["Fmt_Exponential", "Fmt_Dotless", "Fmt_FullScale", "Parse_Exponent", "Parse_DotInside", "FromF_PowNeg"],
        rule: "seeded decimals of 1..400 digits with scales -150000..150000 (+-1, +-2 around the limit, and i64 extremes), zeros with positive and negative scales, one value per Display notation class; each through the default string form (to_string / from_str / to_value / from_value), the json_num adapter and the json_num_option adapter (Some / None / null); JSON documents: numbers of 1..2000 digits with fractions, exponents, leading '-', 'E+', quoted numerals, quoted numerals padded with white space (which are not numerals), and malformed documents; serde token streams of every integer width (i8..i128, u8..u128 incl. MIN/MAX), f32/f64 (exact binary value), str / String / borrowed str. Oracles: round trip is value-equal (digits and scale identical where Display preserves them), JSON number text is read to exactly the (digits, scale) an independent recogniser reads, json_num rejects exactly |scale| > limit, malformed input is Err and never a panic. distinct = distinct cases; non-trivial = non-zero decimals / documents containing a digit",
    }
}

fn plan(tier: Tier) -> Vec<Unit> {
    match tier {
        Tier::Quick => {
            let mut v = crate::util::split_budget("roundtrip", 120_000, 1_000);
            v.extend(crate::util::split_budget("documents", 160_000, 2_000));
            v.extend(crate::util::split_budget("tokens", 20_000, 500));
            v
        }
        Tier::Thorough => {
            let mut v = crate::util::split_budget("roundtrip", 12_000_000, 10_000);
            v.extend(crate::util::split_budget("documents", 15_000_000, 10_000));
            v.extend(crate::util::split_budget("tokens", 2_000_000, 5_000));
            v
        }
        Tier::Miri => {
            let mut v = crate::util::split_budget("roundtrip", 4, 2);
            v.extend(crate::util::split_budget("documents", 6, 3));
            v.extend(crate::util::split_budget("tokens", 2, 1));
            v
        }
    }
}

fn scale_limit() -> i64 {
    crate::param("serde-limit").and_then(|p| p.parse().ok()).unwrap_or(150_000)
}

#[derive(Serialize, Deserialize)]
struct Plain {
    v: BigDecimal,
}
#[derive(Serialize, Deserialize)]
struct Num {
    #[serde(with = "bigdecimal::serde::json_num")]
    v: BigDecimal,
}
#[derive(Serialize, Deserialize)]
struct Opt {
    #[serde(with = "bigdecimal::serde::json_num_option")]
    v: Option<BigDecimal>,
}

fn read_numeral(s: &str) -> Option<Dec> {
    let (neg, digits, scale) = recognise(s.as_bytes())?;
    let mut n = BigInt::parse_bytes(&digits, 10)?;
    if neg { n = -n; }
    Some(Dec::new(n, scale))
}

/// JSON number grammar (RFC 8259): -? (0 | [1-9][0-9]*) (. [0-9]+)? ([eE] [+-]? [0-9]+)?
fn is_json_number(s: &str) -> bool {
    let b = s.as_bytes();
    let mut i = 0;
    if i < b.len() && b[i] == b'-' { i += 1; }
    if i >= b.len() { return false; }
    if b[i] == b'0' { i += 1; } else if b[i].is_ascii_digit() { while i < b.len() && b[i].is_ascii_digit() { i += 1; } } else { return false; }
    if i < b.len() && b[i] == b'.' {
        i += 1;
        let st = i;
        while i < b.len() && b[i].is_ascii_digit() { i += 1; }
        if i == st { return false; }
    }
    if i < b.len() && (b[i] == b'e' || b[i] == b'E') {
        i += 1;
        if i < b.len() && (b[i] == b'+' || b[i] == b'-') { i += 1; }
        let st = i;
        while i < b.len() && b[i].is_ascii_digit() { i += 1; }
        if i == st { return false; }
    }
    i == b.len()
}

/// serde_json's dispatch predicate for an owned arbitrary-precision Number (see number.rs):
/// does `from_value` hand this number text to visit_f64?
fn value_route_goes_through_f64(text: &str) -> bool {
    if text.parse::<u64>().is_ok() || text.parse::<i64>().is_ok() {
        return false;
    }
    match text.parse::<f64>() {
        Ok(f) if f.is_finite() => ryu::Buffer::new().format_finite(f) == text || f.to_string() == text,
        _ => false,
    }
}

fn gen_decimal(r: &mut Rng) -> Dec {
    let lim = scale_limit();
    match r.below(10) {
        0 | 1 => {
            let n = gen::int_nonzero(r, 40);
            let s = *r.pick(&[lim, lim - 1, lim + 1, lim + 2, -lim, -lim + 1, -lim - 1, -lim - 2, lim / 2, -lim / 2]);
            Dec::new(n, s)
        }
        2 => Dec::new(BigInt::zero(), match r.below(4) { 0 => r.range(-20, 20), 1 => r.range(-lim - 2, lim + 2), 2 => 0, _ => *r.pick(&[-1i64, -15, -16, -20, -21, 5, 6, 7]) }),
        3 => {
            // one value per Display notation class
            let n = gen::int_nonzero(r, 12);
            let nd = ndigits(&n) as i64;
            let s = match r.below(5) { 0 => nd + r.range(3, 8), 1 => -r.range(12, 18), 2 => r.range(1, nd.max(1)), 3 => 0, _ => -r.range(1, 15) };
            Dec::new(n, s)
        }
        4 => Dec::new(gen::int_nonzero(r, 20), *r.pick(&[i64::MAX, i64::MIN, i64::MIN + 1, i64::MAX - 1, i32::MAX as i64 + 1, i32::MIN as i64 - 1])),
        5 => {
            // short "float-looking" values: 0.1, 123.4, 2.01, 6.02e-7
            Dec::new(BigInt::from(r.range(-99_999, 99_999)), r.range(1, 9))
        }
        6 => gen::dec(r, 400, 2000),
        _ => gen::dec(r, 60, 60),
    }
}

fn gen_document(r: &mut Rng) -> String {
    const MALFORMED: &[&str] = &["nan", "NaN", "1e", "-", "[1]", "{}", "true", "null", "\"abc\"", "1e999999999999", "01", "1.", ".5", "+1", "1_000", "0x10", "", " ", "1 2", "--1", "1e+", "\"\"", "\"1e\"", "\"+-1\"", "Infinity", "-Infinity", "1e9223372036854775808", "-1e-9223372036854775809", "\"1e9223372036854775808\"", "1.5.5", "1e5.5",
        // quoted strings that are not numerals: padded with white space (ASCII, escaped, no-break), inner space, other radix, non-ASCII digits
        "\" 1\"", "\"1 \"", "\" 1 \"", "\"\\t1\"", "\"1\\n\"", "\"1 2\"", "\"0x10\"", "\"1e5.5\"", "\"\\u00a01\"", "\"1\\u2003\"", "\"\u{661}\u{662}\"", "\" -1.5e3\"", "\"-1.5e3 \""];
    match r.below(10) {
        0 | 1 => r.pick(MALFORMED).to_string(),
        2 => {
            // quoted numeral (string form), including forms only the string parser accepts
            let inner = match r.below(4) { 0 => format!("+{}", r.range(0, 999)), 1 => format!(".{}", r.range(0, 999)), 2 => format!("1_000.{}", r.range(0, 99)), _ => gen_number_text(r) };
            // one in six padded with a blank on either side: not a numeral any more
            match r.below(12) { 0 => format!("\" {}\"", inner), 1 => format!("\"{} \"", inner), _ => format!("\"{}\"", inner) }
        }
        _ => gen_number_text(r),
    }
}

fn gen_number_text(r: &mut Rng) -> String {
    let mut s = String::new();
    if r.chance(1, 3) { s.push('-'); }
    let lmax = if r.chance(1, 30) { 2000 } else if r.chance(1, 4) { 120 } else { 20 };
    let il = gen::length(r, lmax);
    if r.chance(1, 6) { s.push('0'); } else { s.push_str(&gen::digit_string(r, il)); }
    if r.chance(1, 2) {
        s.push('.');
        let fl = gen::length(r, lmax);
        for _ in 0..fl { s.push((b'0' + r.below(10) as u8) as char); }
    }
    if r.chance(1, 2) {
        s.push(if r.bool() { 'e' } else { 'E' });
        match r.below(3) { 0 => s.push('+'), 1 => s.push('-'), _ => {} }
        let lim = scale_limit();
        let e = match r.below(6) { 0 => r.range(0, 30), 1 => r.range(0, 400), 2 => lim + r.range(-3, 3), 3 => r.range(0, 2 * lim), 4 => *r.pick(&[i64::MAX, i64::MAX - 1, 9_223_372_036_854_775_807]), _ => r.range(0, 99) };
        s.push_str(&e.to_string());
    }
    s
}

fn run_unit(unit: &Unit, r: &mut Rng, ctx: &mut Ctx) {
    match unit.kind {
        "roundtrip" => {
            for _ in 0..unit.count {
                let d = gen_decimal(r);
                let case = Case::new("roundtrip").push(d.tok());
                check_case(&case, ctx);
            }
        }
        "documents" => {
            for _ in 0..unit.count {
                let doc = gen_document(r);
                let case = Case::new("document").push(doc);
                check_case(&case, ctx);
            }
        }
        "tokens" => {
            for _ in 0..unit.count {
                let case = Case::new("tokens").push(r.next());
                check_case(&case, ctx);
            }
        }
        _ => {}
    }
}

fn replay(case: &Case, ctx: &mut Ctx) {
    check_case(case, ctx);
}

fn check_roundtrip(d: &Dec, case: &Case, ctx: &mut Ctx) {
    let b = d.bd();
    let lim = scale_limit();
    let display_exact = !(d.s >= -15 && d.s <= -1);
    // ---- default string form
    let r = ctx.guard(|| {
        let s = serde_json::to_string(&Plain { v: b.clone() });
        let back = s.as_ref().ok().map(|s| serde_json::from_str::<Plain>(s).map(|p| p.v).map_err(|e| e.to_string()));
        let val = serde_json::to_value(&Plain { v: b.clone() });
        let back_v = val.as_ref().ok().map(|v| serde_json::from_value::<Plain>(v.clone()).map(|p| p.v).map_err(|e| e.to_string()));
        (s.map_err(|e| e.to_string()), back, val.map_err(|e| e.to_string()), back_v, format!("{}", b))
    });
    ctx.more_evals(3);
    match r {
        Err(p) => ctx.fail("string-form/panic", case, format!("string-form round trip of {} panicked: {}", d.tok(), p)),
        Ok((s, back, _val, back_v, disp)) => {
            match (&s, &back, &back_v) {
                (Ok(s), Some(Ok(x)), Some(Ok(y))) => {
                    ctx.out(s);
                    // (the statement asks for the round trip, not for the serialised text to be literally Display)
                    let _ = &disp;
                    let (xd, yd) = (Dec::of(x), Dec::of(y));
                    ctx.check(model::eq_dec(&xd, d) && model::eq_dec(&yd, d), "string-form/value-changed", case, || format!("{} -> {:?} -> {} / {}", d.tok(), s, xd.tok(), yd.tok()));
                    if display_exact {
                        ctx.check(xd == *d && yd == *d, "string-form/digits-or-scale-changed", case, || format!("{} -> {:?} -> {} / {}", d.tok(), s, xd.tok(), yd.tok()));
                    }
                }
                _ => ctx.fail("string-form/error", case, format!("string-form round trip of {} failed: ser={:?} de={:?} de_value={:?}", d.tok(), s.as_ref().map(|x| x.len()), back.as_ref().map(|b| b.as_ref().map(|_| ()).map_err(|e| e.clone())), back_v.as_ref().map(|b| b.as_ref().map(|_| ()).map_err(|e| e.clone())))),
            }
        }
    }
    // ---- json_num adapter
    let r = ctx.guard(|| {
        let s = serde_json::to_string(&Num { v: b.clone() }).map_err(|e| e.to_string());
        let back = s.as_ref().ok().map(|s| serde_json::from_str::<Num>(s).map(|p| p.v).map_err(|e| e.to_string()));
        let val = serde_json::to_value(&Num { v: b.clone() }).map_err(|e| e.to_string());
        let back_v = val.as_ref().ok().map(|v| serde_json::from_value::<Num>(v.clone()).map(|p| p.v).map_err(|e| e.to_string()));
        (s, back, back_v)
    });
    ctx.more_evals(3);
    match r {
        Err(p) => ctx.fail("json_num/panic", case, format!("json_num round trip of {} panicked: {}", d.tok(), p)),
        Ok((s, back, back_v)) => match &s {
            Err(e) => ctx.fail("json_num/cannot-serialise", case, format!("json_num cannot serialise {}: {}", d.tok(), e)),
            Ok(s) => {
                ctx.out(s);
                let text = s.strip_prefix("{\"v\":").and_then(|t| t.strip_suffix('}')).unwrap_or("");
                let read = read_numeral(text);
                let ok_text = is_json_number(text) && read.as_ref().map(|x| model::eq_dec(x, d)).unwrap_or(false);
                ctx.check(ok_text, "json_num/serialised-text", case, || format!("json_num serialised {} as {:?}, which is not a JSON number denoting the same value", d.tok(), crate::monitor::abbreviate(text, 120)));
                if let Some(read) = read {
                    let beyond = read.s == i64::MIN || read.s.abs() > lim;
                    match back {
                        Some(Ok(x)) => {
                            ctx.check(!beyond, "json_num/limit-not-enforced", case, || format!("json_num accepted {:?} whose scale {} is beyond the limit {}", crate::monitor::abbreviate(text, 80), read.s, lim));
                            ctx.check(model::eq_dec(&Dec::of(&x), d), "json_num/value-changed", case, || format!("{} -> {:?} -> {}", d.tok(), crate::monitor::abbreviate(text, 80), Dec::of(&x).tok()));
                        }
                        Some(Err(e)) => { ctx.check(beyond, "json_num/rejected-within-limit", case, || format!("json_num rejected its own output {:?} (scale {} within the limit {}): {}", crate::monitor::abbreviate(text, 80), read.s, lim, e)); }
                        None => {}
                    }
                    // through serde_json::Value
                    match back_v {
                        Some(Ok(y)) => {
                            if !beyond {
                                let yd = Dec::of(&y);
                                if model::eq_dec(&yd, d) { ctx.ok(); } else if value_route_goes_through_f64(text) {
                                    ctx.fail("from_value/serde_json-visit_f64", case, format!("{} -> Value::Number({:?}) -> {} (serde_json hands this number to visit_f64)", d.tok(), text, yd.tok()));
                                } else {
                                    ctx.fail("json_num/value-route-changed-value", case, format!("{} -> Value::Number({:?}) -> {}", d.tok(), text, yd.tok()));
                                }
                            }
                        }
                        Some(Err(e)) => { ctx.check(beyond, "json_num/rejected-within-limit", case, || format!("json_num (Value route) rejected {:?}: {}", crate::monitor::abbreviate(text, 80), e)); }
                        None => {}
                    }
                }
            }
        },
    }
    // ---- json_num_option adapter
    let r = ctx.guard(|| {
        let s = serde_json::to_string(&Opt { v: Some(b.clone()) }).map_err(|e| e.to_string());
        let back = s.as_ref().ok().map(|s| serde_json::from_str::<Opt>(s).map(|p| p.v).map_err(|e| e.to_string()));
        let none = serde_json::to_string(&Opt { v: None }).map_err(|e| e.to_string());
        let back_none = serde_json::from_str::<Opt>("{\"v\":null}").map(|p| p.v).map_err(|e| e.to_string());
        (s, back, none, back_none)
    });
    ctx.more_evals(3);
    match r {
        Err(p) => ctx.fail("json_num_option/panic", case, format!("json_num_option round trip of {} panicked: {}", d.tok(), p)),
        Ok((s, back, none, back_none)) => {
            ctx.check(none.as_deref() == Ok("{\"v\":null}") && back_none == Ok(None), "json_num_option/none", case, || format!("None serialises to {:?} and null reads back as {:?}", none, back_none.as_ref().map(|o| o.is_some())));
            match (&s, &back) {
                (Ok(s), Some(Ok(Some(x)))) => {
                    ctx.out(s);
                    ctx.check(model::eq_dec(&Dec::of(x), d), "json_num_option/value-changed", case, || format!("{} -> {:?} -> {}", d.tok(), crate::monitor::abbreviate(s, 80), Dec::of(x).tok()));
                }
                (Ok(s), other) => ctx.fail("json_num_option/round-trip-failed", case, format!("Some({}) -> {:?} -> {:?}", d.tok(), crate::monitor::abbreviate(s, 80), other.as_ref().map(|r| r.as_ref().map(|o| o.is_some()).map_err(|e| e.clone())))),
                (Err(e), _) => ctx.fail("json_num_option/cannot-serialise", case, format!("json_num_option cannot serialise {}: {}", d.tok(), e)),
            }
        }
    }
}

fn check_document(doc: &str, case: &Case, ctx: &mut Ctx) {
    let lim = scale_limit();
    let wrapped = format!("{{\"v\":{}}}", doc);
    let r = ctx.guard(|| {
        (
            serde_json::from_str::<BigDecimal>(doc).map_err(|e| e.to_string()),
            serde_json::from_str::<Plain>(&wrapped).map(|p| p.v).map_err(|e| e.to_string()),
            serde_json::from_str::<Num>(&wrapped).map(|p| p.v).map_err(|e| e.to_string()),
            serde_json::from_str::<Opt>(&wrapped).map(|p| p.v).map_err(|e| e.to_string()),
            serde_json::from_str::<serde_json::Value>(doc).ok().map(|v| serde_json::from_value::<BigDecimal>(v).map_err(|e| e.to_string())),
        )
    });
    ctx.more_evals(4);
    let (top, plain, num, opt, via_value) = match r {
        Err(p) => { ctx.fail("document/panic", case, format!("deserialising {:?} panicked: {}", crate::monitor::abbreviate(doc, 120), p)); return; }
        Ok(x) => x,
    };
    // what the document denotes
    let quoted = doc.len() >= 2 && doc.starts_with('"') && doc.ends_with('"') && !doc[1..doc.len() - 1].contains('"') && !doc.contains('\\');
    let expect: Option<Dec> = if is_json_number(doc) { read_numeral(doc) } else if quoted { read_numeral(&doc[1..doc.len() - 1]) } else { None };
    let is_number = is_json_number(doc);
    let show = |r: &Result<BigDecimal, String>| match r { Ok(v) => format!("Ok({})", Dec::of(v).tok()), Err(e) => format!("Err({})", crate::monitor::abbreviate(e, 80)) };
    for (name, got) in [("from_str::<BigDecimal>", &top), ("struct field", &plain)] {
        match (&expect, got) {
            (Some(w), Ok(v)) => {
                ctx.out_bd(v);
                ctx.check(Dec::of(v) == *w, "document/not-digit-for-digit", case, || format!("{}: {:?} read as {} but the text denotes {}", name, crate::monitor::abbreviate(doc, 120), Dec::of(v).tok(), w.tok()));
            }
            (Some(w), Err(e)) => ctx.fail("document/rejected", case, format!("{}: {:?} denotes {} but was rejected: {}", name, crate::monitor::abbreviate(doc, 120), w.tok(), e)),
            (None, Ok(v)) => ctx.fail("document/accepted-non-number", case, format!("{}: {:?} is not a number but was read as {}", name, crate::monitor::abbreviate(doc, 120), Dec::of(v).tok())),
            (None, Err(_)) => ctx.ok(),
        }
    }
    // json_num: numbers only... (a quoted numeral also reaches visit_str through deserialize_any); limit enforced
    match (&expect, &num) {
        (Some(w), Ok(v)) => {
            let beyond = w.s == i64::MIN || w.s.abs() > lim;
            ctx.check(!beyond && Dec::of(v) == *w, if beyond { "json_num/limit-not-enforced" } else { "document/not-digit-for-digit" }, case, || format!("json_num: {:?} read as {} (text denotes {}, limit {})", crate::monitor::abbreviate(doc, 120), Dec::of(v).tok(), w.tok(), lim));
        }
        (Some(w), Err(e)) => {
            let beyond = w.s == i64::MIN || w.s.abs() > lim;
            ctx.check(beyond, "json_num/rejected-within-limit", case, || format!("json_num: {:?} denotes {} (scale within the limit {}) but was rejected: {}", crate::monitor::abbreviate(doc, 120), w.tok(), lim, e));
        }
        (None, Ok(v)) => ctx.fail("document/accepted-non-number", case, format!("json_num: {:?} is not a number but was read as {}", crate::monitor::abbreviate(doc, 120), Dec::of(v).tok())),
        (None, Err(_)) => ctx.ok(),
    }
    // json_num_option: JSON numbers and null only
    match &opt {
        Ok(Some(v)) => {
            let w = if is_number { expect.clone() } else { None };
            ctx.check(w.as_ref().map(|w| Dec::of(v) == *w).unwrap_or(false), "json_num_option/not-digit-for-digit", case, || format!("json_num_option: {:?} read as {}", crate::monitor::abbreviate(doc, 120), Dec::of(v).tok()));
        }
        Ok(None) => { ctx.check(doc == "null", "json_num_option/spurious-none", case, || format!("json_num_option read {:?} as None", doc)); }
        Err(e) => { ctx.check(!is_number || expect.is_none(), "json_num_option/rejected", case, || format!("json_num_option rejected the number {:?}: {}", crate::monitor::abbreviate(doc, 120), e)); }
    }
    // serde_json::Value route
    if let (Some(w), Some(got)) = (&expect, &via_value) {
        match got {
            Ok(v) => {
                let vd = Dec::of(v);
                if vd == *w { ctx.ok(); }
                else if is_number && value_route_goes_through_f64(doc) {
                    ctx.fail("from_value/serde_json-visit_f64", case, format!("Value::Number({:?}) -> {} (serde_json hands this number to visit_f64)", doc, vd.tok()));
                } else if is_number && model::eq_dec(&vd, w) && (doc.parse::<u64>().is_ok() || doc.parse::<i64>().is_ok()) {
                    ctx.ok(); // integer route: same value (e.g. "-0")
                } else {
                    ctx.fail("document/value-route-not-digit-for-digit", case, format!("Value route: {:?} read as {} but the text denotes {}", crate::monitor::abbreviate(doc, 120), vd.tok(), w.tok()));
                }
            }
            Err(e) => ctx.fail("document/rejected", case, format!("Value route rejected {:?}: {}", crate::monitor::abbreviate(doc, 120), e)),
        }
    }
    let _ = show;
}

fn check_tokens(sel: u64, case: &Case, ctx: &mut Ctx) {
    type E = serde::de::value::Error;
    let w: u128 = (sel as u128).wrapping_mul(0x1_0000_0001_0000_0001u128);
    macro_rules! int_tok {
        ($t:ty, $($v:expr),*) => {{ $(
            let v: $t = $v;
            match ctx.guard(|| BigDecimal::deserialize(IntoDeserializer::<E>::into_deserializer(v))) {
                Err(p) => ctx.fail("token/panic", case, format!("{} token {} panicked: {}", stringify!($t), v, p)),
                Ok(r) => {
                    let ok = r.as_ref().map(|x| Dec::of(x) == Dec::new(BigInt::from(v), 0)).unwrap_or(false);
                    ctx.check(ok, "token/integer-not-exact", case, || format!("{} token {} deserialised to {:?}", stringify!($t), v, r.as_ref().map(|x| Dec::of(x).tok()).map_err(|e| e.to_string())));
                }
            }
        )* }};
    }
    int_tok!(i8, 0, -1, i8::MIN, i8::MAX, w as i8);
    int_tok!(i16, 0, -1, i16::MIN, i16::MAX, w as i16);
    int_tok!(i32, 0, -1, i32::MIN, i32::MAX, w as i32);
    int_tok!(i64, 0, -1, i64::MIN, i64::MAX, w as i64, 1i64 << 31, 1i64 << 32, -(1i64 << 31) - 1, (w as i64) >> ((sel % 63) as u32));
    int_tok!(i128, 0, -1, i128::MIN, i128::MAX, w as i128,
        1i128 << 63, (1i128 << 63) - 1, (1i128 << 64) - 1, 1i128 << 64, -(1i128 << 63), -(1i128 << 63) - 1, -(1i128 << 64), -(1i128 << 64) + 1,
        1i128 << 32, -(1i128 << 31), (w as i128) >> ((sel % 127) as u32));
    int_tok!(u8, 0, 1, u8::MAX, w as u8);
    int_tok!(u16, 0, 1, u16::MAX, w as u16);
    int_tok!(u32, 0, 1, u32::MAX, w as u32);
    int_tok!(u64, 0, 1, u64::MAX, w as u64, 1u64 << 63, (1u64 << 63) - 1, 1u64 << 32, (w as u64) >> ((sel % 63) as u32));
    int_tok!(u128, 0, 1, u128::MAX, (1u128 << 127) + 5, w,
        1u128 << 63, (1u128 << 63) - 1, (1u128 << 64) - 1, 1u128 << 64, 1u128 << 127, (1u128 << 127) - 1, 1u128 << 32, w >> ((sel % 127) as u32));
    // floats: exact binary value (same oracle as C14) or an error for non-finite
    let pw = |k: i32| 2f64.powi(k);
    let f64s = [0.1f64, 1e23, 29998999.0001, -2.5, f64::MAX, f64::MIN_POSITIVE, 5e-324, f64::from_bits(sel), f64::NAN, f64::INFINITY, -0.0,
        pw(63), -pw(63), pw(64), pw(62), pw(53), pw(53) + 2.0, pw(31), pw(32), pw(127), pw(128), -pw(64) * 1.5, pw((sel % 140) as i32) * if sel & 1 == 0 { 1.0 } else { -1.0 }, 9007199254740993.0, 4294967296.5];
    for f in f64s {
        let exact = BigDecimal::try_from(f).ok();
        match ctx.guard(|| BigDecimal::deserialize(IntoDeserializer::<E>::into_deserializer(f))) {
            Err(p) => ctx.fail("token/panic", case, format!("f64 token {:e} panicked: {}", f, p)),
            Ok(r) => {
                let ok = match (&r, &exact) { (Ok(a), Some(b)) => Dec::of(a) == Dec::of(b) && exact_float_value(f).map(|w| model::eq_dec(&Dec::of(a), &w)).unwrap_or(false), (Err(_), None) => true, _ => false };
                ctx.check(ok, "token/float-not-exact", case, || format!("f64 token {:e} deserialised to {:?}", f, r.as_ref().map(|x| Dec::of(x).tok()).map_err(|e| e.to_string())));
            }
        }
    }
    let f32s = [0.1f32, 16777216.0, -7.5, f32::MAX, f32::MIN_POSITIVE, f32::from_bits(sel as u32), f32::NAN, f32::NEG_INFINITY,
        2f32.powi(63), -(2f32.powi(63)), 2f32.powi(64), 2f32.powi(31), 2f32.powi(32), 2f32.powi(24), 2f32.powi(127), 2f32.powi((sel % 120) as i32)];
    for f in f32s {
        match ctx.guard(|| BigDecimal::deserialize(IntoDeserializer::<E>::into_deserializer(f))) {
            Err(p) => ctx.fail("token/panic", case, format!("f32 token {:e} panicked: {}", f, p)),
            Ok(r) => {
                let ok = match &r { Ok(a) => f.is_finite() && exact_float_value(f as f64).map(|w| model::eq_dec(&Dec::of(a), &w)).unwrap_or(false), Err(_) => !f.is_finite() };
                ctx.check(ok, "token/float-not-exact", case, || format!("f32 token {:e} deserialised to {:?}", f, r.as_ref().map(|x| Dec::of(x).tok()).map_err(|e| e.to_string())));
            }
        }
    }
    // strings: str / String / borrowed str
    let mut r = Rng::new(sel, 17, 0);
    let text = if r.bool() { gen_number_text(&mut r) } else { r.pick(&["abc", "", "1e", "+5", ".5", "1_0", "--1", "१२"]).to_string() };
    let want = read_numeral(&text);
    let rs = ctx.guard(|| {
        let a = BigDecimal::deserialize(IntoDeserializer::<E>::into_deserializer(text.as_str()));
        let b = BigDecimal::deserialize(IntoDeserializer::<E>::into_deserializer(text.clone()));
        let c = BigDecimal::deserialize(serde::de::value::BorrowedStrDeserializer::<E>::new(text.as_str()));
        [a.ok(), b.ok(), c.ok()]
    });
    match rs {
        Err(p) => ctx.fail("token/panic", case, format!("string token {:?} panicked: {}", text, p)),
        Ok(rs) => {
            for g in rs.iter() {
                ctx.check(g.as_ref().map(Dec::of) == want, "token/string-not-digit-for-digit", case, || format!("string token {:?} deserialised to {:?}, the text denotes {:?}", crate::monitor::abbreviate(&text, 100), g.as_ref().map(|x| Dec::of(x).tok()), want.as_ref().map(|w| w.tok())));
            }
        }
    }
}

fn exact_float_value(f: f64) -> Option<Dec> {
    if !f.is_finite() { return None; }
    let bits = f.to_bits();
    let neg = bits >> 63 == 1;
    let ef = ((bits >> 52) & 0x7ff) as i64;
    let frac = bits & ((1u64 << 52) - 1);
    let (mant, e) = if ef == 0 { (frac, -1074) } else { (frac | (1 << 52), ef - 1075) };
    let m = BigInt::from(mant);
    let d = if e >= 0 { Dec::new(m << e as usize, 0) } else { Dec::new(m * num_traits::pow::Pow::pow(BigInt::from(5u8), (-e) as u64), -e) };
    Some(if neg { d.neg() } else { d })
}

pub fn check_case(case: &Case, ctx: &mut Ctx) {
    ctx.begin_case(case);
    match case.kind() {
        "roundtrip" => {
            if let Some(d) = Dec::from_tok(case.arg(0)) {
                check_roundtrip(&d, case, ctx);
                ctx.end_case(case.hash(), !d.n.is_zero());
                if ctx.want_sample() && !d.n.is_zero() && ndigits(&d.n) < 40 {
                    ctx.sample(case, format!("string form {:?}, json_num {:?}: both read back to the same decimal", serde_json::to_string(&Plain { v: d.bd() }).unwrap_or_default(), serde_json::to_string(&Num { v: d.bd() }).unwrap_or_default()));
                }
            }
        }
        "document" => {
            let doc = case.arg(0).to_string();
            check_document(&doc, case, ctx);
            ctx.end_case(case.hash(), doc.bytes().any(|c| c.is_ascii_digit()));
        }
        "tokens" => {
            let sel: u64 = case.arg(0).parse().unwrap_or(0);
            check_tokens(sel, case, ctx);
            ctx.end_case(case.hash(), true);
        }
        _ => {}
    }
    let _ = BigInt::one();
}

//! C14 — binary floats convert to decimals exactly and come back unchanged

use crate::gen::{self, pow10, Dec, Rng};
use crate::model;
use crate::monitor::{Case, Ctx};
use crate::{PropDef, Tier, Unit};
use bigdecimal::{BigDecimal, FromPrimitive, ToPrimitive};
use num_bigint::BigInt;
use num_traits::{One, Signed, Zero};
use std::convert::TryFrom;
use std::sync::OnceLock;

pub fn def() -> PropDef {
    PropDef {
        id: "C14",
        plan,
        run_unit,
        replay,
        required_probes: &[
            "FromF_Zero", "FromF_Subnormal", "FromF_PowNeg", "FromF_PowZero", "FromF_PowPos",
            "ToF64_Zero", "ToF64_Scale0", "ToF64_Trim", "ToF64_Powi", "ToF64_String", "ToF64_Infinity",
        ],
        rule: "f32: enumerated bit patterns (quick: every exponent field x 65536 mantissas incl. 0, 1, max, alternating sign = 2^24 patterns; thorough: all 2^32), each through try_from / from_f32 with an exact check decimal == mantissa * 2^e (table of powers of five), NaN/inf => error, and back through to_f64 / to_f32 bit for bit; f64: exponent fields {0,1,2,1022..1025,2045,2046,2047} x random mantissas, mantissas of all ones/zeros, random f64, values 2^k and 2^k +- 1ulp across 2^52..2^70; to_f64 of arbitrary decimals: 1..400 digits with exponents -400..400, exact midpoints between adjacent floats +- 1 unit far down, neighbourhoods of f64::MAX (digits x 10^n forms up to 1.8e308), MIN_POSITIVE and the smallest subnormal, scales exactly on and beside the ends of the i32 / u32 / i64 ranges, short coefficients (1, 2, 5, 10, 1..999) at exponents +-300..420 (1e309, 9e307, 5e-324, 1e-400), judged by exact rational inequalities (relative error <= 2^-48 in the normal range, infinity only beyond or within tolerance of MAX, one subnormal step below). distinct = distinct bit patterns / decimals (enumerated ones are distinct by construction); non-trivial = finite non-zero float or non-zero decimal",
    }
}

fn plan(tier: Tier) -> Vec<Unit> {
    match tier {
        Tier::Quick => {
            let mut v = crate::util::split_budget("f32-strat", 1 << 24, 1 << 17);
            v.extend(crate::util::split_budget("f64", 120_000, 4_000));
            v.extend(crate::util::split_budget("to_f64", 60_000, 2_000));
            v
        }
        Tier::Thorough => {
            let mut v = crate::util::split_budget("f32-all", 1u64 << 32, 1 << 21);
            v.extend(crate::util::split_budget("f64", 12_000_000, 100_000));
            v.extend(crate::util::split_budget("to_f64", 4_000_000, 20_000));
            v
        }
        Tier::Miri => {
            let mut v = crate::util::split_budget("f32-strat", 40, 20);
            v.extend(crate::util::split_budget("f64", 6, 3));
            v.extend(crate::util::split_budget("to_f64", 6, 3));
            v
        }
    }
}

struct Tables {
    pow5: Vec<BigInt>,
    pow2: Vec<BigInt>,
}

fn tables() -> &'static Tables {
    static T: OnceLock<Tables> = OnceLock::new();
    T.get_or_init(|| {
        let mut pow5 = Vec::with_capacity(1200);
        let mut pow2 = Vec::with_capacity(1200);
        let (mut a, mut b) = (BigInt::one(), BigInt::one());
        for _ in 0..1200 {
            pow5.push(a.clone());
            pow2.push(b.clone());
            a *= 5;
            b *= 2;
        }
        Tables { pow5, pow2 }
    })
}

/// exact value of a finite float given as (negative, mantissa, binary exponent): Dec
fn exact_of(neg: bool, mant: u64, e: i64) -> Dec {
    let t = tables();
    let m = BigInt::from(mant);
    let d = if e >= 0 { Dec::new(m * &t.pow2[e as usize], 0) } else { Dec::new(m * &t.pow5[(-e) as usize], -e) };
    if neg { d.neg() } else { d }
}

fn decode_f32(bits: u32) -> Option<(bool, u64, i64)> {
    let neg = bits >> 31 == 1;
    let ef = ((bits >> 23) & 0xff) as i64;
    let frac = (bits & 0x7f_ffff) as u64;
    match ef {
        255 => None,
        0 => Some((neg, frac, -149)),
        _ => Some((neg, frac | (1 << 23), ef - 150)),
    }
}

fn decode_f64(bits: u64) -> Option<(bool, u64, i64)> {
    let neg = bits >> 63 == 1;
    let ef = ((bits >> 52) & 0x7ff) as i64;
    let frac = bits & ((1u64 << 52) - 1);
    match ef {
        2047 => None,
        0 => Some((neg, frac, -1074)),
        _ => Some((neg, frac | (1 << 52), ef - 1075)),
    }
}

/// does `got` denote exactly `want` (fast path: align on the larger scale with table powers)
fn same_value(got: &BigDecimal, want: &Dec) -> bool {
    let (n, s) = got.as_bigint_and_scale();
    if s == want.s {
        return *n == want.n;
    }
    if s < want.s && want.s - s < 1200 {
        return n.as_ref() * pow10((want.s - s) as u64) == want.n;
    }
    model::eq_dec(&Dec::of(got), want)
}

fn judge_f32(ctx: &mut Ctx, bits: u32) {
    let f = f32::from_bits(bits);
    let dec = decode_f32(bits);
    let mk = || Case::new("f32").push(format!("{:08x}", bits));
    let r = ctx.guard(|| (BigDecimal::try_from(f), BigDecimal::from_f32(f)));
    match r {
        Err(p) => ctx.fail("from-float/panic", &mk(), format!("converting f32 {:08x} panicked: {}", bits, p)),
        Ok((a, b)) => match dec {
            None => {
                if a.is_err() && b.is_none() { ctx.ok(); } else {
                    ctx.fail("from-float/non-finite-accepted", &mk(), format!("f32 {:08x} ({}) converted: try_from ok={} from_f32 some={}", bits, f, a.is_ok(), b.is_some()));
                }
            }
            Some((neg, mant, e)) => {
                let want = exact_of(neg, mant, e);
                match (a, b) {
                    (Ok(a), Some(b)) => {
                        ctx.out_bd(&a);
                        if same_value(&a, &want) && a == b && a.as_bigint_and_scale().1 == b.as_bigint_and_scale().1 { ctx.ok(); } else {
                            ctx.fail("from-float/not-exact", &mk(), format!("f32 {:08x} ({:e}) -> {} but the float holds {}", bits, f, Dec::of(&a).tok(), want.tok()));
                        }
                        // back again
                        match ctx.guard(|| (a.to_f64(), a.to_ref().to_f64(), a.to_f32(), a.to_ref().to_f32())) {
                            Err(p) => ctx.fail("to-float/panic", &mk(), format!("to_f64 of {} panicked: {}", Dec::of(&a).tok(), p)),
                            Ok((g1, g2, g3, g4)) => {
                                let back64 = if f == 0.0 { 0.0f64 } else { f as f64 };
                                let back32 = if f == 0.0 { 0.0f32 } else { f };
                                let ok = g1.map(|g| g.to_bits()) == Some(back64.to_bits()) && g2.map(|g| g.to_bits()) == Some(back64.to_bits())
                                    && g3.map(|g| g.to_bits()) == Some(back32.to_bits()) && g4.map(|g| g.to_bits()) == Some(back32.to_bits());
                                if ok { ctx.ok(); } else {
                                    ctx.fail("to-float/round-trip", &mk(), format!("f32 {:08x} ({:e}) -> {} -> to_f64 {:?} / {:?}, to_f32 {:?} / {:?}", bits, f, Dec::of(&a).tok(), g1, g2, g3, g4));
                                }
                            }
                        }
                    }
                    (a, b) => ctx.fail("from-float/finite-rejected", &mk(), format!("finite f32 {:08x} ({:e}) rejected: try_from ok={} from_f32 some={}", bits, f, a.is_ok(), b.is_some())),
                }
            }
        },
    }
}

fn judge_f64(ctx: &mut Ctx, bits: u64) {
    let f = f64::from_bits(bits);
    let dec = decode_f64(bits);
    let case = Case::new("f64").push(format!("{:016x}", bits));
    ctx.begin_case(&case);
    let r = ctx.guard(|| (BigDecimal::try_from(f), BigDecimal::from_f64(f)));
    match r {
        Err(p) => ctx.fail("from-float/panic", &case, format!("converting f64 {:016x} panicked: {}", bits, p)),
        Ok((a, b)) => match dec {
            None => {
                ctx.check(a.is_err() && b.is_none(), "from-float/non-finite-accepted", &case, || format!("f64 {:016x} ({}) converted", bits, f));
            }
            Some((neg, mant, e)) => {
                let want = exact_of(neg, mant, e);
                match (a, b) {
                    (Ok(a), Some(b)) => {
                        ctx.out_bd(&a);
                        let held_exact = ctx.check(same_value(&a, &want) && a == b, "from-float/not-exact", &case, || format!("f64 {:016x} ({:e}) -> {} but the float holds {}", bits, f, Dec::of(&a).tok(), want.tok()));
                        match ctx.guard(|| (a.to_f64(), a.to_ref().to_f64())) {
                            Err(p) => ctx.fail("to-float/panic", &case, format!("to_f64 of {} panicked: {}", Dec::of(&a).tok(), p)),
                            Ok((g1, g2)) => {
                                let back = if f == 0.0 { 0.0f64 } else { f };
                                ctx.check(g1.map(|g| g.to_bits()) == Some(back.to_bits()) && g2.map(|g| g.to_bits()) == Some(back.to_bits()), "to-float/round-trip", &case,
                                    || format!("f64 {:016x} ({:e}) -> {} -> to_f64 {:?} / {:?}", bits, f, Dec::of(&a).tok(), g1, g2));
                            }
                        }
                        if ctx.want_event() {
                            let out = Dec::of(&a).tok();
                            ctx.log("from_f64", &[format!("{:016x}", bits)], serde_json::json!({}), out, held_exact);
                        }
                    }
                    (a, b) => ctx.fail("from-float/finite-rejected", &case, format!("finite f64 {:016x} ({:e}) rejected: try_from ok={} from_f64 some={}", bits, f, a.is_ok(), b.is_some())),
                }
            }
        },
    }
    let nontrivial = dec.map(|d| d.1 != 0).unwrap_or(false);
    ctx.end_case(case.hash(), nontrivial);
    if ctx.want_sample() && nontrivial {
        ctx.sample(&case, format!("{:e} converts to its exact binary value and back bit for bit", f));
    }
}

/// |g - t| * 2^48 <= |t| decided exactly; g finite
fn within_rel(t: &Dec, g: f64) -> bool {
    let (neg, mant, e) = decode_f64(g.to_bits()).unwrap();
    let tb = tables();
    // T = tn / td ; G = gn / gd
    let (tn, td) = if t.s >= 0 { (t.n.abs(), pow10(t.s as u64)) } else { (t.n.abs() * pow10((-t.s) as u64), BigInt::one()) };
    let (gn, gd) = if e >= 0 { (BigInt::from(mant) * &tb.pow2[e as usize], BigInt::one()) } else { (BigInt::from(mant), tb.pow2[(-e) as usize].clone()) };
    if mant != 0 && neg != t.n.is_negative() {
        return false;
    }
    let diff = (&gn * &td - &tn * &gd).abs();
    diff * &tb.pow2[48] <= &tn * &gd
}

/// |g - t| <= 2^-1074 decided exactly
fn within_subnormal_step(t: &Dec, g: f64) -> bool {
    let (neg, mant, e) = decode_f64(g.to_bits()).unwrap();
    let tb = tables();
    if mant != 0 && neg != t.n.is_negative() {
        return false;
    }
    let (tn, td) = if t.s >= 0 { (t.n.abs(), pow10(t.s as u64)) } else { (t.n.abs() * pow10((-t.s) as u64), BigInt::one()) };
    let (gn, gd) = if e >= 0 { (BigInt::from(mant) * &tb.pow2[e as usize], BigInt::one()) } else { (BigInt::from(mant), tb.pow2[(-e) as usize].clone()) };
    // |gn/gd - tn/td| <= 1/2^1074
    let diff = (&gn * &td - &tn * &gd).abs();
    diff * &tb.pow2[1074] <= &gd * &td
}

fn cmp_abs_with_float(t: &Dec, f: f64) -> std::cmp::Ordering {
    let (_, mant, e) = decode_f64(f.to_bits()).unwrap();
    model::cmp_dec(&Dec::new(t.n.abs(), t.s), &exact_of(false, mant, e))
}

fn judge_to_f64(ctx: &mut Ctx, case: &Case, t: &Dec) {
    let b = t.bd();
    let r = ctx.guard(|| (b.to_f64(), b.to_ref().to_f64()));
    match r {
        Err(p) => ctx.fail("to-float/panic", case, format!("to_f64 of {} panicked: {}", t.tok(), p)),
        Ok((g1, g2)) => {
            let (g, gr) = match (g1, g2) {
                (Some(g), Some(gr)) => (g, gr),
                _ => { ctx.fail("to-float/none", case, format!("to_f64 of {} returned None", t.tok())); return; }
            };
            if g.to_bits() != gr.to_bits() {
                // value and reference disagree: judge the reference's answer by the same clauses (below, once) by
                // treating the pair as two results; identical answers are not required by the statement
                ctx.note("to_f64-value-and-reference-differ");
                judge_float_result(ctx, case, t, gr);
            }
            judge_float_result(ctx, case, t, g);
        }
    }
}

fn judge_float_result(ctx: &mut Ctx, case: &Case, t: &Dec, g: f64) {
    use std::cmp::Ordering::*;
    {
        {
            if t.n.is_zero() {
                ctx.check(g == 0.0, "to-float/zero", case, || format!("to_f64 of zero = {:e}", g));
                return;
            }
            ctx.check(!g.is_nan(), "to-float/nan", case, || format!("to_f64 of {} is NaN", t.tok()));
            if g.is_nan() { return; }
            // far outside the f64 range: decide from the decade alone (never materialise 10^scale)
            let decade = crate::gen::ndigits(&t.n) as i128 - t.s as i128; // |t| in [10^(decade-1), 10^decade)
            if decade > 312 {
                ctx.check(g.is_infinite() && (g < 0.0) == t.n.is_negative(), "to-float/huge-value-not-infinite", case, || format!("to_f64 of {} = {:e}", t.tok(), g));
                return;
            }
            if decade < -330 {
                let tiny = g == 0.0 || (g.abs() == f64::from_bits(1) && (g < 0.0) == t.n.is_negative());
                ctx.check(tiny, "to-float/subnormal-range", case, || format!("to_f64 of {} = {:e} is more than one subnormal step away", t.tok(), g));
                return;
            }
            if g.is_infinite() {
                // only beyond, or within tolerance of, the largest finite f64; right sign
                let sign_ok = (g < 0.0) == t.n.is_negative();
                // |t| >= MAX * (1 - 2^-48)  <=>  MAX is within the relative tolerance of t ... decided via within_rel(t, MAX) or |t| > MAX
                let near_or_beyond = cmp_abs_with_float(t, f64::MAX) == Greater || within_rel(&Dec::new(t.n.abs(), t.s), f64::MAX);
                ctx.check(sign_ok && near_or_beyond, "to-float/infinity-for-finite-value", case, || format!("to_f64 of {} = {:e} although the value is below f64::MAX by more than the tolerance", t.tok(), g));
                return;
            }
            // finite result
            let held = if cmp_abs_with_float(t, f64::MIN_POSITIVE) == Less {
                ctx.check(within_subnormal_step(t, g), "to-float/subnormal-range", case, || format!("to_f64 of {} = {:e} is more than one subnormal step away", t.tok(), g))
            } else {
                ctx.check(within_rel(t, g), "to-float/relative-error", case, || format!("to_f64 of {} = {:e} (bits {:016x}) has relative error above 2^-48 or the wrong sign", t.tok(), g, g.to_bits()))
            };
            if ctx.want_event() && t.s.unsigned_abs() < 1200 {
                ctx.log("to_f64", &[t.tok()], serde_json::json!({}), format!("{:016x}", g.to_bits()), held);
            }
        }
    }
}

fn gen_decimal_for_to_f64(r: &mut Rng) -> Dec {
    let tb = tables();
    match r.below(11) {
        10 => {
            // short coefficients (1, 2, 5, 9, 10, 100, 1..999) at decades on both sides of the f64 range limits:
            // 1e309, 1e400, 9e307, 2e308, 1e-323, 5e-324, 3e-324, 1e-400 ...
            let c = match r.below(3) { 0 => 1, 1 => *r.pick(&[1i64, 2, 3, 4, 5, 9, 10, 100, 1000, 25, 17, 18]), _ => r.range(1, 999) };
            let e = match r.below(4) { 0 => r.range(300, 330), 1 => r.range(300, 420), 2 => -r.range(300, 330), _ => -r.range(300, 420) };
            Dec::new(BigInt::from(if r.bool() { -c } else { c }), -e)
        }
        0 | 1 => {
            // exact midpoints between adjacent floats, +- one unit far down
            let bits = (r.next() & 0x7fff_ffff_ffff_ffff) % 0x7fe0_0000_0000_0000;
            let (_, mant, e) = decode_f64(bits).unwrap();
            // midpoint = (2*mant+1) * 2^(e-1)
            let mut d = exact_of(r.bool(), 2 * mant + 1, e - 1);
            match r.below(3) {
                0 => {}
                _ => {
                    let k = r.range(1, 40);
                    d = Dec::new(&d.n * pow10(k as u64) + if r.bool() { 1 } else { -1 }, d.s + k);
                }
            }
            d
        }
        2 => {
            // around f64::MAX: digits x 10^n forms and the exact integer
            let lead = *r.pick(&["1", "15", "16", "17", "1797", "179769", "1797693134862315", "17976931348623157", "17976931348623158", "1797693134862315807", "18", "2", "9", "125"]);
            let mut s = lead.to_string();
            let extra = if r.chance(1, 3) { 0 } else { r.below(50) as usize };
            for _ in 0..extra { s.push((b'0' + r.below(10) as u8) as char); }
            let n: BigInt = s.parse().unwrap();
            let digits = s.len() as i64;
            // value = n * 10^(309 - digits + j): magnitude around 1e308
            let j = r.range(-2, 0);
            Dec::new(if r.bool() { -n } else { n }, -(309 - digits + j))
        }
        3 => {
            // exact f64::MAX +- small, as an integer
            let (_, mant, e) = decode_f64(f64::MAX.to_bits()).unwrap();
            let mut d = exact_of(false, mant, e);
            d.n += r.range(-5, 5);
            if r.bool() { d.n = &d.n * &tb.pow2[1] / 2; }
            d
        }
        4 => {
            // around MIN_POSITIVE and the smallest subnormal
            let ll = 1 + r.below(20) as usize;
            let lead = gen::digit_string(r, ll);
            let n: BigInt = lead.parse().unwrap();
            let digits = lead.len() as i64;
            let target = *r.pick(&[-308i64, -307, -309, -323, -324, -325, -330, -400, -320]);
            Dec::new(if r.bool() { -n } else { n }, -(target - digits + 1))
        }
        5 => {
            // integers of scale 0 and negative scale
            let n = gen::int_nonzero(r, 400);
            Dec::new(n, -r.range(0, 30))
        }
        6 => {
            // huge / tiny exponents beyond i32
            let n = gen::int_nonzero(r, 30);
            let (j1, j2) = (r.range(0, 40), r.range(0, 40));
            Dec::new(n, *r.pick(&[i32::MAX as i64 + 10, -(i32::MAX as i64) - 10, 5_000, -5_000, 400, -400, i64::MAX, i64::MIN + 1,
                // exactly on the ends of the i32 / u32 / i64 ranges, where a narrowed exponent or its negation overflows
                i32::MIN as i64, i32::MIN as i64 + 1, i32::MIN as i64 - 1, i32::MAX as i64, i32::MAX as i64 + 1, u32::MAX as i64, u32::MAX as i64 + 1, -(u32::MAX as i64), i64::MIN, i64::MAX - 1,
                i32::MIN as i64 + j1, i32::MAX as i64 - j2]))
        }
        _ => {
            let len = 1 + r.below(400) as usize;
            let n: BigInt = gen::digit_string(r, len).parse().unwrap();
            let e = r.range(-400, 400);
            Dec::new(if r.bool() { -n } else { n }, len as i64 - e)
        }
    }
}

fn run_unit(unit: &Unit, r: &mut Rng, ctx: &mut Ctx) {
    match unit.kind {
        "f32-strat" => {
            let case = Case::new("f32-range").push("strat").push(unit.start).push(unit.count);
            ctx.begin_case(&case);
            let mut nt = 0u64;
            for idx in unit.start..unit.start + unit.count {
                let ef = (idx >> 16) as u32 & 0xff;
                let j = (idx & 0xffff) as u32;
                let mant = match j >> 1 { 0 => 0, 1 => 1, 2 => 0x7f_ffff, 3 => 0x40_0000, 4 => 0x3f_ffff, k => (k.wrapping_mul(0x9E37_79B1) ^ (k << 9)) & 0x7f_ffff };
                let bits = ((j & 1) << 31) | (ef << 23) | mant;
                judge_f32(ctx, bits);
                if ef != 255 && (ef != 0 || mant != 0) { nt += 1; }
            }
            ctx.enumerated_nontrivial += nt;
            ctx.end_case(case.hash(), false);
            if unit.start == 0 {
                ctx.exhaustive_notes.push("C14: f32 stratified sweep: every exponent field 0..255 x 32768 mantissas (0, 1, max, half, scrambled) x both signs".into());
            }
        }
        "f32-all" => {
            let case = Case::new("f32-range").push("all").push(unit.start).push(unit.count);
            ctx.begin_case(&case);
            let mut nt = 0u64;
            for idx in unit.start..unit.start + unit.count {
                let bits = idx as u32;
                judge_f32(ctx, bits);
                let ef = (bits >> 23) & 0xff;
                if ef != 255 && (bits << 1) != 0 { nt += 1; }
            }
            ctx.enumerated_nontrivial += nt;
            ctx.end_case(case.hash(), false);
            if unit.start == 0 {
                ctx.exhaustive_notes.push("C14: all 2^32 f32 bit patterns".into());
            }
        }
        "f64" => {
            for _ in 0..unit.count {
                let bits = match r.below(8) {
                    0 | 1 => {
                        let ef = *r.pick(&[0u64, 1, 2, 1022, 1023, 1024, 1025, 2045, 2046, 2047, 1075, 1076, 1086, 1087, 1088, 1089, 1074, 52, 53]);
                        let frac = match r.below(5) { 0 => 0, 1 => (1u64 << 52) - 1, 2 => 1, 3 => 1u64 << 51, _ => r.next() & ((1u64 << 52) - 1) };
                        ((r.next() & 1) << 63) | (ef << 52) | frac
                    }
                    2 => {
                        // 2^k and neighbours for k in 52..70 (integer-valued floats whose significand shifts left)
                        let k = r.range(50, 72) as u64;
                        let base = (1023 + k) << 52;
                        (base as i64 + r.range(-2, 2)) as u64 | ((r.next() & 1) << 63)
                    }
                    3 => {
                        // small integers and simple fractions
                        let v = (r.range(-1_000_000, 1_000_000) as f64) / (1u64 << r.below(20)) as f64;
                        v.to_bits()
                    }
                    _ => r.next(),
                };
                judge_f64(ctx, bits);
            }
        }
        "to_f64" => {
            for _ in 0..unit.count {
                let t = gen_decimal_for_to_f64(r);
                let case = Case::new("to_f64").push(t.tok());
                check_case(&case, ctx);
            }
        }
        _ => {}
    }
}

fn replay(case: &Case, ctx: &mut Ctx) {
    ctx.event_budget = 16;
    check_case(case, ctx);
}

pub fn check_case(case: &Case, ctx: &mut Ctx) {
    match case.kind() {
        "f32" => {
            if let Ok(bits) = u32::from_str_radix(case.arg(0), 16) {
                ctx.begin_case(case);
                judge_f32(ctx, bits);
                ctx.end_case(case.hash(), true);
            }
        }
        "f64" => {
            if let Ok(bits) = u64::from_str_radix(case.arg(0), 16) {
                judge_f64(ctx, bits);
            }
        }
        "f32-range" => {
            let kind = if case.arg(0) == "all" { "f32-all" } else { "f32-strat" };
            let u = Unit { kind, start: case.arg(1).parse().unwrap_or(0), count: case.arg(2).parse().unwrap_or(0), param: 0 };
            let mut r = Rng::new(0, 0, 0);
            run_unit(&u, &mut r, ctx);
        }
        "to_f64" => {
            let t = match Dec::from_tok(case.arg(0)) { Some(t) => t, None => return };
            ctx.begin_case(case);
            judge_to_f64(ctx, case, &t);
            ctx.end_case(case.hash(), !t.n.is_zero());
            if ctx.want_sample() && !t.n.is_zero() && t.s.unsigned_abs() < 400 {
                ctx.sample(case, format!("to_f64 = {:?}, within 2^-48 relative (exact rational check)", t.bd().to_f64()));
            }
        }
        _ => {}
    }
}

//! One module per property: workload + oracle wiring

use crate::PropDef;

#[cfg(not(feature = "slim"))]
pub mod c01;
#[cfg(not(feature = "slim"))]
pub mod c02;
#[cfg(not(feature = "slim"))]
pub mod c03;
pub mod c04;
pub mod c05;
pub mod c06;
#[cfg(not(feature = "slim"))]
pub mod c07;
pub mod c08;
#[cfg(not(feature = "slim"))]
pub mod c09;
pub mod c10;
pub mod c11;
pub mod c12;
pub mod c13;
#[cfg(not(feature = "slim"))]
pub mod c14;
#[cfg(not(feature = "slim"))]
pub mod c15;
pub mod c16;
#[cfg(not(feature = "slim"))]
pub mod c17;
#[cfg(not(feature = "slim"))]
pub mod c18;
#[cfg(not(feature = "slim"))]
pub mod c19;
pub mod c20;

pub fn all() -> Vec<PropDef> {
    vec![
        #[cfg(not(feature = "slim"))]
        c01::def(),
        #[cfg(not(feature = "slim"))]
        c02::def(),
        #[cfg(not(feature = "slim"))]
        c03::def(),
        c04::def(),
        c05::def(),
        c06::def(),
        #[cfg(not(feature = "slim"))]
        c07::def(),
        c08::def(),
        #[cfg(not(feature = "slim"))]
        c09::def(),
        c10::def(),
        c11::def(),
        c12::def(),
        c13::def(),
        #[cfg(not(feature = "slim"))]
        c14::def(),
        #[cfg(not(feature = "slim"))]
        c15::def(),
        c16::def(),
        #[cfg(not(feature = "slim"))]
        c17::def(),
        #[cfg(not(feature = "slim"))]
        c18::def(),
        #[cfg(not(feature = "slim"))]
        c19::def(),
        c20::def(),
    ]
}

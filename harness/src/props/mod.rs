//! One module per property: workload + oracle wiring

use crate::PropDef;

pub mod c01;
pub mod c02;

pub fn all() -> Vec<PropDef> {
    vec![
        c01::def(),
        c02::def(),
    ]
}

//! One module per property: workload + oracle wiring

use crate::PropDef;

pub mod c01;
pub mod c02;
pub mod c03;
pub mod c04;
pub mod c05;
pub mod c06;
pub mod c07;
pub mod c08;
pub mod c09;
pub mod c10;
pub mod c11;
pub mod c12;

pub fn all() -> Vec<PropDef> {
    vec![
        c01::def(),
        c02::def(),
        c03::def(),
        c04::def(),
        c05::def(),
        c06::def(),
        c07::def(),
        c08::def(),
        c09::def(),
        c10::def(),
        c11::def(),
        c12::def(),
    ]
}

//! C12 — reciprocal is accurate to the last requested digit and sign-symmetric

use crate::gen::{self, ndigits, pow10, Dec, Rng};
use crate::model::{self, mirror, mode_from_name, mode_name, MODES};
use crate::monitor::{Case, Ctx};
use crate::props::c10::gen_precision;
use crate::{PropDef, Tier, Unit};
use bigdecimal::{BigDecimal, Context, RoundingMode};
use num_bigint::BigInt;
use num_traits::{One, Signed, Zero};
use std::num::NonZeroU64;

pub fn def() -> PropDef {
    PropDef {
        id: "C12",
        plan,
        run_unit,
        replay,
        required_probes: &["Inv_GuessF64", "Inv_GuessFallback", "WithPrec_Round", "WithPrec_TermApplied"],
        rule: "exhaustive small scope: every |n| in 1..2000, both signs x scales -2..2 x p 1..4 x 7 modes; then seeded non-zero decimals of 1..1500 digits, scales -2000..2000, both signs, with dedicated families: 2^i 5^j (i <= 60, j <= 30; also long powers of five) at precisions equal to / one below / one above the exact length of the reciprocal, 99..9 and 100..01 (reciprocal just above / below a power of ten), integers with exactly 1070..1080 bits and > 1100 bits (the f64 initial guess underflows), small integers; p in 1..150 weighted to 1..5 and 100; 7 modes; inverse_with_context on x and on -x under the mirrored mode, inverse() and `1 / x` for every primitive integer type and f32/f64. Four separate monitors: sign, |r - 1/x| < one unit of the p-th digit of 1/x (integer inequality), exactness when 1/x has <= p digits, mirror identity; the Newton loop reports its iteration count to a loop guard (termination as bounded progress). distinct = distinct (x, p, mode); non-trivial = 1/x is not representable in p digits",
    }
}

fn plan(tier: Tier) -> Vec<Unit> {
    match tier {
        Tier::Quick => { let mut v = crate::util::split_budget("recip", 120_000, 1_000); v.extend(crate::util::split_budget("small", 2_000, 40)); v }
        Tier::Thorough => { let mut v = crate::util::split_budget("recip", 9_000_000, 5_000); v.extend(crate::util::split_budget("small", 2_000, 20)); v }
        Tier::Miri => crate::util::split_budget("recip", 4, 2),
    }
}

fn pow_big(base: u32, e: u64) -> BigInt {
    num_traits::pow::Pow::pow(BigInt::from(base), e)
}

pub fn gen_x(r: &mut Rng, i: u64) -> (Dec, Option<u64>) {
    // returns x and, for terminating reciprocals, a suggested precision
    match r.below(12) {
        0 | 1 | 2 => {
            let (i2, j5) = match r.below(3) { 0 => (r.below(61), r.below(31)), 1 => (0, r.below(40)), _ => (r.below(120), 0) };
            let n = pow_big(2, i2) * pow_big(5, j5);
            let x = Dec::new(n, r.range(-60, 60));
            // exact length of the reciprocal
            let one = Dec::new(BigInt::one(), 0);
            let q = model::exact_quotient(&one, &x).map(|q| ndigits(&model::normalize(&q).n)).unwrap_or(1);
            let p = match r.below(4) { 0 => q, 1 => q + 1, 2 => q.saturating_sub(1).max(1), _ => q + r.below(4) };
            (x, Some(p))
        }
        3 => {
            let l = 1 + r.below(80) as usize;
            let n: BigInt = if r.bool() { "9".repeat(l).parse().unwrap() } else { pow10(l as u64) + 1u8 };
            (Dec::new(n, r.range(-100, 100)), None)
        }
        4 => {
            // exact bit lengths around the f64 underflow of the initial guess (2^-1074)
            let bits = if r.bool() { r.range(1068, 1082) as u64 } else { r.range(1020, 5000) as u64 };
            let mut n = BigInt::one() << (bits - 1) as usize;
            let low = BigInt::from(r.next()) * BigInt::from(r.next());
            n += low % (BigInt::one() << (bits - 1).min(120) as usize);
            if r.chance(1, 4) { n = (BigInt::one() << bits as usize) - 1u8; }
            (Dec::new(n, r.range(-2000, 2000)), None)
        }
        5 => (Dec::new(BigInt::from(r.range(2, 99_999)), r.range(-12, 12)), None),
        6 => {
            // powers of ten written with digits: 1000, 0.001 (shortcut and non-shortcut)
            let k = r.below(30);
            (Dec::new(pow10(k), r.range(-40, 40)), None)
        }
        _ => {
            let lm = if i % 40 == 0 { 1500 } else if i % 6 == 0 { 300 } else { 40 };
            (Dec::new(gen::uint_nonzero(r, lm), r.range(-2000, 2000)), None)
        }
    }
}

fn run_unit(unit: &Unit, r: &mut Rng, ctx: &mut Ctx) {
    if unit.kind == "small" {
        // exhaustive: every n in 1..=2000, both signs x scale -2..=2 x p 1..=4 x 7 modes
        for idx in unit.start..unit.start + unit.count {
            let n = idx as i64 + 1;
            for sg in [1i64, -1] {
                for s in -2i64..=2 {
                    for p in 1u64..=4 {
                        for &mode in MODES.iter() {
                            let case = Case::new("inverse").push(Dec::new(BigInt::from(sg * n), s).tok()).push(p).push(mode_name(mode)).push((idx + p) % 12);
                            check_case(&case, ctx);
                        }
                    }
                }
            }
        }
        if unit.start == 0 {
            ctx.exhaustive_notes.push("C12 small scope: every |n| in 1..2000, both signs x scales -2..2 x p 1..4 x 7 modes (560 000 cases)".into());
        }
        return;
    }
    for i in 0..unit.count {
        let (mut x, ps) = gen_x(r, unit.start + i);
        if r.bool() { x = x.neg(); }
        let p = match ps { Some(p) if r.chance(3, 4) => p.clamp(1, 400), _ => gen_precision(r) };
        let mode = *r.pick(&MODES);
        let case = Case::new("inverse").push(x.tok()).push(p).push(mode_name(mode)).push(r.next() % 12);
        check_case(&case, ctx);
    }
}

fn replay(case: &Case, ctx: &mut Ctx) {
    check_case(case, ctx);
}

fn default_ctx() -> (u64, RoundingMode) {
    (crate::param("precision").and_then(|p| p.parse().ok()).unwrap_or(100),
     crate::param("mode").and_then(|m| mode_from_name(&m)).unwrap_or(RoundingMode::HalfEven))
}

/// the four clauses on one result; returns the result as Dec
fn judge(ctx: &mut Ctx, case: &Case, what: &str, r: Result<BigDecimal, String>, x: &Dec, p: u64) -> Option<Dec> {
    let v0 = ctx.total_violations();
    let g = judge_inner(ctx, case, what, r, x, p);
    if let Some(g) = &g {
        if what == "inverse_with_context" && ctx.want_event() && x.tok().len() < 400 && x.s.unsigned_abs() < 1500 {
            let held = ctx.total_violations() == v0;
            ctx.log("inverse", &[x.tok()], serde_json::json!({"p": p}), g.tok(), held);
        }
    }
    g
}

fn judge_inner(ctx: &mut Ctx, case: &Case, what: &str, r: Result<BigDecimal, String>, x: &Dec, p: u64) -> Option<Dec> {
    match r {
        Err(pn) => {
            if pn.contains("verif-loop-cap") {
                ctx.fail("inverse/no-progress", case, format!("`{}`: the Newton iteration did not converge within the loop guard: {}", what, pn));
            } else {
                ctx.fail("inverse/panic", case, format!("`{}` panicked: {}", what, pn));
            }
            None
        }
        Ok(v) => {
            ctx.out_bd(&v);
            let g = Dec::of(&v);
            let neg = x.n.is_negative();
            let m = x.n.abs();
            // 1. sign
            ctx.check(!g.n.is_zero() && g.n.is_negative() == neg, "inverse/wrong-sign", case, || format!("`{}`: 1/({}) = {}", what, x.tok(), g.tok()));
            // 2. less than one unit of the p-th digit of 1/x
            let rf = model::recip_floor(&m, x.s, p);
            let t = (g.s as i128).max(rf.scale).max(-(x.s as i128)).max(0);
            if t > 100_000 {
                ctx.note("harness-skipped-huge-exponent");
            } else {
                let a = g.n.abs() * &m * pow10((t - g.s as i128) as u64);
                let b = pow10((t + x.s as i128) as u64);
                let c = &m * pow10((t - rf.scale) as u64);
                let err = (&a - &b).abs();
                ctx.check(err < c, "inverse/error-at-least-one-unit", case, || format!(
                    "`{}`: 1/({}) at precision {} = {} differs from the true reciprocal by at least one unit in its digit {} (true reciprocal starts {}e{})", what, x.tok(), p, g.tok(), p, rf.q, -rf.scale));
                // 3. exact whenever 1/x has at most p digits
                let one = Dec::new(BigInt::one(), 0);
                if let Some(q) = model::exact_quotient(&one, &Dec::new(m.clone(), x.s)) {
                    let qn = model::normalize(&q);
                    if ndigits(&qn.n) <= p {
                        let want = if neg { q.neg() } else { q };
                        ctx.check(model::eq_dec(&g, &want), "inverse/exact-reciprocal-not-returned", case, || format!(
                            "`{}`: 1/({}) is exactly {} ({} digits <= precision {}) but {} was returned", what, x.tok(), model::normalize(&want).tok(), ndigits(&qn.n), p, g.tok()));
                    }
                }
            }
            Some(g)
        }
    }
}

pub fn check_case(case: &Case, ctx: &mut Ctx) {
    let x = match Dec::from_tok(case.arg(0)) { Some(d) if !d.n.is_zero() => d, _ => return };
    let p: u64 = match case.arg(1).parse() { Ok(p) if p >= 1 => p, _ => return };
    let mode = mode_from_name(case.arg(2)).unwrap_or(RoundingMode::HalfEven);
    let sel: u64 = case.arg(3).parse().unwrap_or(0);
    ctx.begin_case(case);
    let b = x.bd();
    let c = Context::new(NonZeroU64::new(p).unwrap(), mode);
    let r = ctx.guard(|| b.inverse_with_context(&c));
    let g1 = judge(ctx, case, "inverse_with_context", r, &x, p);
    // mirror identity: inverse(-x, mirror(m)) == -inverse(x, m)
    let nx = x.neg();
    let nb = nx.bd();
    let cm = Context::new(NonZeroU64::new(p).unwrap(), mirror(mode));
    let r = ctx.guard(|| nb.inverse_with_context(&cm));
    let g2 = judge(ctx, case, "inverse_with_context (negated input, mirrored mode)", r, &nx, p);
    if let (Some(g1), Some(g2)) = (&g1, &g2) {
        ctx.check(model::eq_dec(g1, &g2.neg()), "inverse/mirror-identity", case, || format!(
            "inverse({}, {}) = {} but -inverse({}, {}) = {}", x.tok(), mode_name(mode), g1.tok(), nx.tok(), mode_name(mirror(mode)), g2.neg().tok()));
    }
    // correctly rounded reference, reported (not judged: the statement allows < 1 unit)
    if let Some(g1) = &g1 {
        let best = model::recip_rounded(&x.n.abs(), x.s, p, mode, x.n.is_negative());
        if model::eq_dec(g1, &best) { ctx.note("inverse-correctly-rounded"); } else { ctx.note("inverse-within-one-unit-but-not-correctly-rounded"); }
    }
    // default context and `1 / x`
    let (dp, _dm) = default_ctx();
    if case.hash() % 3 == 0 || p == dp {
        let r = ctx.guard(|| b.inverse());
        let base = judge(ctx, case, "inverse (default context)", r, &x, dp);
        macro_rules! one_over { ($t:ty, $one:expr) => {{
            let one: $t = $one;
            let forms = vec![
                (concat!("1", stringify!($t), " / x"), ctx.guard(|| one / b.clone())),
                (concat!("1", stringify!($t), " / &x"), ctx.guard(|| one / &b)),
                (concat!("&1", stringify!($t), " / x"), ctx.guard(|| &one / b.clone())),
                (concat!("&1", stringify!($t), " / &x"), ctx.guard(|| &one / &b)),
            ];
            for (name, r) in forms {
                // (judged by the same four clauses; the statement does not require `1 / x` and inverse() to be identical)
                let _ = judge(ctx, case, name, r, &x, dp);
                let _ = &base;
            }
        }}; }
        match sel {
            0 => one_over!(u8, 1), 1 => one_over!(u16, 1), 2 => one_over!(u32, 1), 3 => one_over!(u64, 1), 4 => one_over!(u128, 1),
            5 => one_over!(i8, 1), 6 => one_over!(i16, 1), 7 => one_over!(i32, 1), 8 => one_over!(i64, 1), 9 => one_over!(i128, 1),
            10 => one_over!(f32, 1.0), _ => one_over!(f64, 1.0),
        }
    }
    let one = Dec::new(BigInt::one(), 0);
    let exact = model::exact_quotient(&one, &x).map(|q| ndigits(&model::normalize(&q).n) <= p).unwrap_or(false);
    ctx.end_case(case.hash(), !exact);
    if ctx.want_sample() && !exact {
        if let Some(g) = g1 { ctx.sample(case, format!("x has {} digits; inverse = {} (error < 1 unit of digit {}, mirror identity holds)", ndigits(&x.n), g.tok(), p)); }
    }
}

//! C08 — division is correctly rounded and refuses a zero divisor in every form

use crate::gen::{self, ndigits, pow10, Dec, Rng};
use crate::model;
use crate::monitor::{Case, Ctx};
use crate::{PropDef, Tier, Unit};
use bigdecimal::BigDecimal;
use num_bigint::BigInt;
use num_traits::{One, Signed, Zero};
use std::convert::TryFrom;

pub fn def() -> PropDef {
    PropDef {
        id: "C08",
        plan,
        run_unit,
        replay,
        required_probes: &["Div_Normalize", "Div_EarlyExact", "Div_ExactInLoop", "Div_Inexact", "RoundingTerm"],
        rule: "exhaustive small scope: every quotient of na*10^-sa by nb*10^-sb with |na| <= 200, 1 <= |nb| <= 60, scales 0..1; then seeded pairs (a, b != 0) of 1..2000 digits, any scales and signs: divisors 2^i 5^j with terminating quotients of 1..100+ digits (exactly 99/100/101), quotients with 9..9 / 0..0 / 5 runs straddling digit 100, |a| << |b|, |a| >> |b| (integer part > 100 digits), equal unscaled integers with different scales, unit divisors 1.000; constructed boundary quotients n = t*d + rem (t = P leading digits followed by 1..40 further digits 49..9 / 50..0 / 99..9 / 00..0 / random, rem in {0, 1, d/2 - 1, d/2, d/2 + 1, d - 1, random}, numerator much longer than the divisor or scales shifted); each pair through the 4 ownership forms (identical results required) judged by exact integer inequalities (exact if the true quotient has <= 100 digits, otherwise >= 100 digits, within half an ulp, ties away from zero); primitive forms for all 10 integer types and f32/f64 (both orders, by-reference forms, /=) compared with the same division on the converted decimals, +-2 exact half; the zero-divisor matrix (every integer-typed and decimal-typed divisor form, zero and non-zero numerators, all /= forms) must panic. distinct = distinct case tuples; non-trivial = true quotient does not terminate within 100 digits (rounding decides the last digit)",
    }
}

fn plan(tier: Tier) -> Vec<Unit> {
    match tier {
        Tier::Quick => {
            let mut v = crate::util::split_budget("pairs", 100_000, 1_000);
            v.extend(crate::util::split_budget("small", 401, 10));
            v.extend(crate::util::split_budget("prims", 12_000, 300));
            v.extend(crate::util::split_budget("zero", 1_600, 100));
            v.extend(crate::util::split_budget("boundary", 40_000, 1_000));
            v
        }
        Tier::Thorough => {
            let mut v = crate::util::split_budget("pairs", 8_000_000, 5_000);
            v.extend(crate::util::split_budget("small", 401, 5));
            v.extend(crate::util::split_budget("prims", 1_000_000, 2_000));
            v.extend(crate::util::split_budget("zero", 60_000, 500));
            v.extend(crate::util::split_budget("boundary", 3_000_000, 5_000));
            v
        }
        Tier::Miri => {
            let mut v = crate::util::split_budget("pairs", 4, 2);
            v.extend(crate::util::split_budget("prims", 2, 1));
            v.extend(crate::util::split_budget("zero", 2, 1));
            v
        }
    }
}

fn default_precision() -> u64 {
    crate::param("precision").and_then(|p| p.parse().ok()).unwrap_or(100)
}

fn pow_big(base: u32, e: u64) -> BigInt {
    num_traits::pow::Pow::pow(BigInt::from(base), e)
}

pub fn gen_pair(r: &mut Rng, i: u64) -> (Dec, Dec) {
    let lm = if i % 40 == 0 { 2000 } else if i % 5 == 0 { 250 } else { 45 };
    match r.below(10) {
        0 | 1 => {
            // terminating quotients: divisor 2^i 5^j, numerator chosen so the quotient has a chosen length
            let i2 = r.below(200);
            let j5 = r.below(120);
            let b = Dec::new(pow_big(2, i2) * pow_big(5, j5) * if r.bool() { 1 } else { -1 }, r.range(-50, 50));
            let la = if r.bool() { 8 } else { 100 };
            let a = gen::dec(r, la, 60);
            (a, b)
        }
        2 => {
            // quotient of exactly L significant digits: a = q * b with q of L digits
            let l = *r.pick(&[1u64, 2, 50, 98, 99, 100, 101, 102, 150]);
            let q = Dec::new(gen::digit_string(r, l as usize).parse::<BigInt>().unwrap(), r.range(-150, 150));
            let b = gen::dec_nonzero(r, 30, 60);
            let a = model::mul(&q, &b);
            (a, b)
        }
        3 => {
            // quotient whose digits around position 100 are 9..9 / 0..0 / 50..0: a = (q + tiny) * b
            let l = r.range(96, 104) as usize;
            let mut q: BigInt = gen::digit_string(r, l).parse().unwrap();
            let tail_len = r.range(1, 30) as usize;
            let tail: BigInt = match r.below(4) {
                0 => "9".repeat(tail_len).parse().unwrap(),
                1 => format!("{}1", "0".repeat(tail_len - 1)).parse().unwrap(),
                2 => format!("5{}", "0".repeat(tail_len - 1)).parse().unwrap(),
                _ => format!("4{}", "9".repeat(tail_len - 1)).parse().unwrap(),
            };
            q = q * pow10(tail_len as u64) + tail;
            let qd = Dec::new(q, r.range(-20, 140));
            let b = gen::dec_nonzero(r, 12, 30);
            (model::mul(&qd, &b), b)
        }
        4 => {
            // |a| much larger than |b|: integer part beyond 100 digits
            let a = Dec::new(gen::int_nonzero(r, 400), r.range(-300, 10));
            let b = Dec::new(gen::int_nonzero(r, 20), r.range(0, 40));
            (a, b)
        }
        5 => {
            // |a| much smaller than |b|
            let a = Dec::new(gen::int_nonzero(r, 20), r.range(0, 400));
            let b = Dec::new(gen::int_nonzero(r, 300), r.range(-300, 10));
            (a, b)
        }
        6 => {
            // equal unscaled integers, different scales; unit divisors
            let a = gen::dec_nonzero(r, lm, 200);
            if r.bool() {
                (a.clone(), Dec::new(a.n.clone(), a.s + r.range(-60, 60)))
            } else {
                let k = r.range(0, 30);
                (a, Dec::new(pow10(k as u64), k))
            }
        }
        _ => {
            let a = gen::dec(r, lm, 2000);
            let mut b = gen::partner(r, &a, lm, 2000, 300);
            if b.is_zero() { b = Dec::new(BigInt::one(), b.s.clamp(-100, 100)); }
            (a, b)
        }
    }
}

/// Judge R as the quotient a / b under the statement's rule.  Returns whether the case was non-trivial.
fn judge_quotient(ctx: &mut Ctx, case: &Case, what: &str, a: &Dec, b: &Dec, res: &Dec, prec: u64) -> bool {
    let v0 = ctx.total_violations();
    let nontrivial = judge_quotient_inner(ctx, case, what, a, b, res, prec);
    if ctx.prop == "C08" && ctx.want_event() && what == "BigDecimal / BigDecimal" && a.tok().len() + b.tok().len() < 500 && (a.s as i128 - b.s as i128).abs() < 1500 {
        let held = ctx.total_violations() == v0;
        ctx.log("div", &[a.tok(), b.tok()], serde_json::json!({"prec": prec}), res.tok(), held);
    }
    nontrivial
}

fn judge_quotient_inner(ctx: &mut Ctx, case: &Case, what: &str, a: &Dec, b: &Dec, res: &Dec, prec: u64) -> bool {
    if a.n.is_zero() {
        ctx.check(res.n.is_zero(), "div/wrong", case, || format!("`{}`: 0 / b = {}", what, res.tok()));
        return false;
    }
    let exact = model::exact_quotient(a, b);
    if let Some(q) = &exact {
        let qn = model::normalize(q);
        if ndigits(&qn.n) <= prec {
            ctx.check(model::eq_dec(res, q), "div/exact-quotient-not-returned", case, || format!(
                "`{}`: {} / {} has the exact {}-digit quotient {} but {} was returned", what, a.tok(), b.tok(), ndigits(&qn.n), qn.tok(), res.tok()));
            return false;
        }
    }
    // inexact at this precision: sign, digit count, half-ulp, ties away from zero
    let neg = a.n.is_negative() != b.n.is_negative();
    let sign_ok = !res.n.is_zero() && res.n.is_negative() == neg;
    ctx.check(sign_ok, "div/wrong-sign", case, || format!("`{}`: {} / {} = {}", what, a.tok(), b.tok(), res.tok()));
    let nd = ndigits(&res.n);
    ctx.check(nd >= prec, "div/too-few-digits", case, || format!("`{}`: {} / {} = {} has only {} significant digits (precision {})", what, a.tok(), b.tok(), res.tok(), nd, prec));
    // is the returned value the exact quotient (possible with more than P digits, e.g. division by 1.000)?
    let returned_exact = {
        let e = b.s as i128 - a.s as i128 + res.s as i128;
        e.abs() <= 200_000 && if e >= 0 { &res.n * &b.n == &a.n * pow10(e as u64) } else { &res.n * &b.n * pow10((-e) as u64) == a.n }
    };
    if ctx.prop == "C20" && !returned_exact {
        // C20: a rounded division *delivers the configured number* of significant digits: exactly P unless the quotient
        // of the unscaled integers alone already has more (one more only when rounding carried 99..9 into 10..0)
        let (mut num, den) = (a.n.abs(), b.n.abs());
        while num < den { num *= 10u8; }
        let d0 = ndigits(&(&num / &den));
        let want = d0.max(prec);
        // (rounding the long integer part to exactly P digits would equally "deliver the configured number")
        let carried = (nd == want + 1 || nd == prec + 1) && res.n.abs() == pow10(nd - 1);
        ctx.check(nd == want || nd == prec || carried, "div/not-the-configured-number-of-digits", case, || format!(
            "`{}`: {} / {} = {} has {} significant digits; configured precision {} (integer quotient has {})", what, a.tok(), b.tok(), res.tok(), nd, prec, d0));
    }
    // compare Q*b with a*10^E, E = b.s - a.s + sc
    let e = b.s as i128 - a.s as i128 + res.s as i128;
    if e.abs() > 200_000 {
        ctx.note("harness-skipped-huge-exponent");
        return true;
    }
    let (lhs, rhs, unit) = if e >= 0 {
        (&res.n * &b.n, &a.n * pow10(e as u64), b.n.abs())
    } else {
        let p = pow10((-e) as u64);
        (&res.n * &b.n * &p, a.n.clone(), b.n.abs() * &p)
    };
    let diff = &lhs - &rhs;
    let twice = diff.abs() * 2u8;
    let within = twice <= unit;
    ctx.check(within, "div/not-within-half-ulp", case, || format!("`{}`: {} / {} = {} is more than half a unit in the last place away from the true quotient", what, a.tok(), b.tok(), res.tok()));
    if within && twice == unit {
        // exact tie: the magnitude must be the larger neighbour
        ctx.check(lhs.abs() > rhs.abs(), "div/tie-not-away-from-zero", case, || format!("`{}`: {} / {} is an exact tie at digit {} and was rounded toward zero: {}", what, a.tok(), b.tok(), nd, res.tok()));
    }
    true
}

macro_rules! int_prim_case {
    ($ctx:ident, $case:ident, $a:ident, $ad:ident, $t:ty, $v:expr, $prec:ident) => {{
        let v: $t = $v;
        let vd = Dec::new(BigInt::from(v), 0);
        let tn = stringify!($t);
        if v != 0 as $t {
            // D / prim forms
            let conv = BigDecimal::from(v);
            let base = $ctx.guard(|| $a.clone() / conv.clone());
            let forms: Vec<(&str, Result<BigDecimal, String>)> = vec![
                ("BigDecimal / t", $ctx.guard(|| $a.clone() / v)),
                ("&BigDecimal / t", $ctx.guard(|| &$a / v)),
                ("BigDecimal / &t", $ctx.guard(|| $a.clone() / &v)),
                ("BigDecimal /= t", $ctx.guard(|| { let mut x = $a.clone(); x /= v; x })),
                ("BigDecimal /= &t", $ctx.guard(|| { let mut x = $a.clone(); x /= &v; x })),
            ];
            for (name, r) in forms {
                match (&r, &base) {
                    (Ok(g), Ok(bq)) => {
                        $ctx.out_bd(g);
                        let gd = Dec::of(g);
                        let two = vd.n == BigInt::from(2) || vd.n == BigInt::from(-2);
                        if two {
                            let want = model::half(&Dec::new(if vd.n.is_negative() { -$ad.n.clone() } else { $ad.n.clone() }, $ad.s));
                            $ctx.check(model::eq_dec(&gd, &want), "div-prim/half-not-exact", $case, || format!("`{}` [t={} v={}]: got {} want the exact half {}", name, tn, v, gd.tok(), want.tok()));
                        } else {
                            $ctx.check(model::eq_dec(&gd, &Dec::of(bq)), "div-prim/differs-from-converted", $case, || format!("`{}` [t={} v={}]: got {} but a / BigDecimal::from(v) = {}", name, tn, v, gd.tok(), Dec::of(bq).tok()));
                            judge_quotient($ctx, $case, name, $ad, &vd, &gd, $prec);
                        }
                    }
                    (Err(p), _) => $ctx.fail("div-prim/panic", $case, format!("`{}` [t={} v={}] panicked: {}", name, tn, v, p)),
                    (_, Err(p)) => $ctx.fail("div-prim/panic", $case, format!("a / BigDecimal::from({}) panicked: {}", v, p)),
                }
            }
        }
        if v != 1 as $t && !$ad.n.is_zero() {
            // prim / D forms (numerator one is the reciprocal, judged by C12)
            let conv = BigDecimal::from(v);
            let base = $ctx.guard(|| conv.clone() / $a.clone());
            let forms: Vec<(&str, Result<BigDecimal, String>)> = vec![
                ("t / BigDecimal", $ctx.guard(|| v / $a.clone())),
                ("t / &BigDecimal", $ctx.guard(|| v / &$a)),
                ("&t / BigDecimal", $ctx.guard(|| &v / $a.clone())),
                ("&t / &BigDecimal", $ctx.guard(|| &v / &$a)),
            ];
            for (name, r) in forms {
                match (&r, &base) {
                    (Ok(g), Ok(bq)) => {
                        $ctx.out_bd(g);
                        let gd = Dec::of(g);
                        $ctx.check(model::eq_dec(&gd, &Dec::of(bq)), "div-prim/differs-from-converted", $case, || format!("`{}` [t={} v={}]: got {} but BigDecimal::from(v) / a = {}", name, tn, v, gd.tok(), Dec::of(bq).tok()));
                        judge_quotient($ctx, $case, name, &vd, $ad, &gd, $prec);
                    }
                    (Err(p), _) => $ctx.fail("div-prim/panic", $case, format!("`{}` [t={} v={}] panicked: {}", name, tn, v, p)),
                    (_, Err(p)) => $ctx.fail("div-prim/panic", $case, format!("BigDecimal::from({}) / a panicked: {}", v, p)),
                }
            }
        }
    }};
}

macro_rules! float_prim_case {
    ($ctx:ident, $case:ident, $a:ident, $ad:ident, $t:ty, $v:expr, $prec:ident) => {{
        let v: $t = $v;
        let tn = stringify!($t);
        if v.is_normal() {
            let conv = BigDecimal::try_from(v).expect("normal float converts");
            let vd = Dec::of(&conv);
            let base = $ctx.guard(|| $a.clone() / conv.clone());
            let forms: Vec<(&str, Result<BigDecimal, String>)> = vec![
                ("BigDecimal / f", $ctx.guard(|| $a.clone() / v)),
                ("&BigDecimal / f", $ctx.guard(|| &$a / v)),
                ("BigDecimal / &f", $ctx.guard(|| $a.clone() / &v)),
                ("BigDecimal /= f", $ctx.guard(|| { let mut x = $a.clone(); x /= v; x })),
                ("BigDecimal /= &f", $ctx.guard(|| { let mut x = $a.clone(); x /= &v; x })),
            ];
            for (name, r) in forms {
                match (&r, &base) {
                    (Ok(g), Ok(bq)) => {
                        $ctx.out_bd(g);
                        let gd = Dec::of(g);
                        if v == 2.0 || v == -2.0 {
                            let want = model::half(&Dec::new(if v < 0.0 { -$ad.n.clone() } else { $ad.n.clone() }, $ad.s));
                            $ctx.check(model::eq_dec(&gd, &want), "div-prim/half-not-exact", $case, || format!("`{}` [t={} v={}]: got {} want the exact half {}", name, tn, v, gd.tok(), want.tok()));
                        } else {
                            $ctx.check(model::eq_dec(&gd, &Dec::of(bq)), "div-prim/differs-from-converted", $case, || format!("`{}` [t={} v={:e}]: got {} but a / try_from(v) = {}", name, tn, v, gd.tok(), Dec::of(bq).tok()));
                            judge_quotient($ctx, $case, name, $ad, &vd, &gd, $prec);
                        }
                    }
                    (Err(p), _) => $ctx.fail("div-prim/panic", $case, format!("`{}` [t={} v={:e}] panicked: {}", name, tn, v, p)),
                    (_, Err(p)) => $ctx.fail("div-prim/panic", $case, format!("a / try_from({:e}) panicked: {}", v, p)),
                }
            }
            if v != 1.0 && !$ad.n.is_zero() {
                let base = $ctx.guard(|| conv.clone() / $a.clone());
                let forms: Vec<(&str, Result<BigDecimal, String>)> = vec![
                    ("f / BigDecimal", $ctx.guard(|| v / $a.clone())),
                    ("f / &BigDecimal", $ctx.guard(|| v / &$a)),
                    ("&f / BigDecimal", $ctx.guard(|| &v / $a.clone())),
                    ("&f / &BigDecimal", $ctx.guard(|| &v / &$a)),
                ];
                for (name, r) in forms {
                    match (&r, &base) {
                        (Ok(g), Ok(bq)) => {
                            $ctx.out_bd(g);
                            let gd = Dec::of(g);
                            $ctx.check(model::eq_dec(&gd, &Dec::of(bq)), "div-prim/differs-from-converted", $case, || format!("`{}` [t={} v={:e}]: got {} but try_from(v) / a = {}", name, tn, v, gd.tok(), Dec::of(bq).tok()));
                            judge_quotient($ctx, $case, name, &vd, $ad, &gd, $prec);
                        }
                        (Err(p), _) => $ctx.fail("div-prim/panic", $case, format!("`{}` [t={} v={:e}] panicked: {}", name, tn, v, p)),
                        (_, Err(p)) => $ctx.fail("div-prim/panic", $case, format!("try_from({:e}) / a panicked: {}", v, p)),
                    }
                }
            }
        }
    }};
}

/// every zero-divisor form must panic; returns the list of forms that returned a number
macro_rules! zero_int_forms {
    ($ctx:ident, $bad:ident, $a:ident, $z:ident, $t:ty) => {{
        let z0: $t = 0;
        let tn = stringify!($t);
        let mut probe = |name: &str, r: Result<BigDecimal, String>| {
            if let Ok(v) = r { $bad.push(format!("`{}` [t={}] returned {}", name, tn, Dec::of(&v).tok())); }
        };
        probe("BigDecimal / 0t", $ctx.guard(|| $a.clone() / z0));
        probe("&BigDecimal / 0t", $ctx.guard(|| &$a / z0));
        probe("BigDecimal / &0t", $ctx.guard(|| $a.clone() / &z0));
        probe("BigDecimal /= 0t", $ctx.guard(|| { let mut x = $a.clone(); x /= z0; x }));
        probe("BigDecimal /= &0t", $ctx.guard(|| { let mut x = $a.clone(); x /= &z0; x }));
        for v in [0 as $t, 1, 2, 7, <$t>::MAX] {
            probe(&format!("{}t / zero", v), $ctx.guard(|| v / $z.clone()));
            probe(&format!("{}t / &zero", v), $ctx.guard(|| v / &$z));
            probe(&format!("&{}t / zero", v), $ctx.guard(|| &v / $z.clone()));
            probe(&format!("&{}t / &zero", v), $ctx.guard(|| &v / &$z));
        }
    }};
}

macro_rules! zero_float_forms {
    ($ctx:ident, $bad:ident, $z:ident, $t:ty) => {{
        let tn = stringify!($t);
        let mut probe = |name: &str, r: Result<BigDecimal, String>| {
            if let Ok(v) = r { $bad.push(format!("`{}` [t={}] returned {}", name, tn, Dec::of(&v).tok())); }
        };
        for v in [1.0 as $t, 2.5, -1.0, 0.0, 1e10] {
            probe(&format!("{}f / zero", v), $ctx.guard(|| v / $z.clone()));
            probe(&format!("{}f / &zero", v), $ctx.guard(|| v / &$z));
            probe(&format!("&{}f / zero", v), $ctx.guard(|| &v / $z.clone()));
            probe(&format!("&{}f / &zero", v), $ctx.guard(|| &v / &$z));
        }
    }};
}

fn run_unit(unit: &Unit, r: &mut Rng, ctx: &mut Ctx) {
    match unit.kind {
        "boundary" => {
            // quotients built digit by digit around the rounding position: n = t*d + rem with t = P leading digits
            // followed by k further integer digits (49..9, 50..0, 99..9, 00..0, random) and a remainder 0, 1, just below
            // / at / just above d/2, d-1: results that sit on, or a hair beside, a rounding boundary, reached through a
            // numerator much longer than the divisor (one long division step) or through shifted scales
            let p = default_precision() as usize;
            for _ in 0..unit.count {
                let lead = match r.below(4) { 0 => "9".repeat(p), 1 => format!("1{}", "0".repeat(p - 1)), _ => gen::digit_string(r, p) };
                let k = match r.below(3) { 0 => 1, 1 => 1 + r.below(4) as usize, _ => 1 + r.below(40) as usize };
                let tail = match r.below(7) {
                    0 => format!("4{}", "9".repeat(k - 1)),
                    1 => format!("5{}", "0".repeat(k - 1)),
                    2 => "9".repeat(k),
                    3 => "0".repeat(k),
                    4 => format!("{}{}", if r.bool() { "49" } else { "50" }, gen::digit_string(r, k)),
                    5 => format!("4{}8", "9".repeat(k - 1)),
                    _ => gen::digit_string(r, k),
                };
                let t: BigInt = format!("{}{}", lead, tail).parse().unwrap();
                let dl = match r.below(3) { 0 => 1, 1 => 1 + r.below(3) as usize, _ => 1 + r.below(25) as usize };
                let d: BigInt = match r.below(5) { 0 => BigInt::from(3), 1 => BigInt::from(7), _ => gen::digit_string(r, dl).parse().unwrap() };
                let half: BigInt = &d / BigInt::from(2);
                let rem = match r.below(8) {
                    0 => BigInt::zero(),
                    1 => BigInt::one(),
                    2 => &d - 1,
                    3 => half.clone(),
                    4 => &half + 1,
                    5 => if half.is_zero() { BigInt::zero() } else { &half - 1 },
                    _ => { let x: BigInt = gen::digit_string(r, dl).parse().unwrap(); x % &d }
                };
                let rem = if rem >= d { BigInt::zero() } else { rem };
                let n = &t * &d + rem;
                let (sa, sb) = match r.below(3) { 0 => (0, 0), 1 => (r.range(-40, 160), r.range(-40, 40)), _ => (r.range(-5, 5), 0) };
                let a = Dec::new(if r.bool() { -n } else { n }, sa);
                let b = Dec::new(if r.chance(1, 3) { -d } else { d }, sb);
                let case = Case::new("pair").push(a.tok()).push(b.tok());
                check_case(&case, ctx);
            }
        }
        "pairs" => {
            for i in 0..unit.count {
                let (a, b) = gen_pair(r, unit.start + i);
                let case = Case::new("pair").push(a.tok()).push(b.tok());
                check_case(&case, ctx);
            }
        }
        "small" => {
            // exhaustive: a = na*10^-sa, b = nb*10^-sb with |na| <= 200, 1 <= |nb| <= 60, sa, sb in 0..=1
            for idx in unit.start..unit.start + unit.count {
                let na = idx as i64 - 200;
                for nb in (-60i64..=60).filter(|x| *x != 0) {
                    for sa in 0i64..=1 {
                        for sb in 0i64..=1 {
                            let case = Case::new("pair").push(Dec::new(BigInt::from(na), sa).tok()).push(Dec::new(BigInt::from(nb), sb).tok());
                            check_case(&case, ctx);
                        }
                    }
                }
            }
            if unit.start == 0 {
                ctx.exhaustive_notes.push("C08 small scope: every a = na*10^-sa, b = nb*10^-sb with |na| <= 200, 1 <= |nb| <= 60, scales 0..1 (192 480 quotients x 4 ownership forms)".into());
            }
        }
        "prims" => {
            for i in 0..unit.count {
                let a = if i % 7 == 0 { Dec::new(BigInt::zero(), r.range(-5, 5)) } else { gen::dec(r, if i % 10 == 0 { 300 } else { 30 }, 60) };
                let sel = r.next();
                let case = Case::new("prim").push(a.tok()).push(sel);
                check_case(&case, ctx);
            }
        }
        "zero" => {
            for _ in 0..unit.count {
                let a = if r.chance(1, 3) { Dec::new(BigInt::zero(), r.range(-30, 30)) } else { gen::dec(r, 40, 60) };
                let zs = match r.below(3) { 0 => 0, 1 => r.range(-40, 40), _ => r.range(-100_000, 100_000) };
                let case = Case::new("zero").push(a.tok()).push(zs);
                check_case(&case, ctx);
            }
        }
        _ => {}
    }
}

fn replay(case: &Case, ctx: &mut Ctx) {
    check_case(case, ctx);
}

pub fn check_case(case: &Case, ctx: &mut Ctx) {
    let prec = default_precision();
    match case.kind() {
        "pair" => {
            let (ad, bd) = match (Dec::from_tok(case.arg(0)), Dec::from_tok(case.arg(1))) { (Some(a), Some(b)) if !b.is_zero() => (a, b), _ => return };
            ctx.begin_case(case);
            let (a, b) = (ad.bd(), bd.bd());
            let rs = [
                ("BigDecimal / BigDecimal", ctx.guard(|| a.clone() / b.clone())),
                ("BigDecimal / &BigDecimal", ctx.guard(|| a.clone() / &b)),
                ("&BigDecimal / BigDecimal", ctx.guard(|| &a / b.clone())),
                ("&BigDecimal / &BigDecimal", ctx.guard(|| &a / &b)),
            ];
            let mut nontrivial = false;
            let mut first: Option<Dec> = None;
            for (name, r) in rs.iter() {
                match r {
                    Err(p) => ctx.fail("div/panic", case, format!("`{}` panicked: {}", name, p)),
                    Ok(v) => {
                        ctx.out_bd(v);
                        let g = Dec::of(v);
                        match &first {
                            None => {
                                nontrivial = judge_quotient(ctx, case, name, &ad, &bd, &g, prec);
                                first = Some(g);
                            }
                            Some(f) => {
                                ctx.check(*f == g, "div/ownership-forms-differ", case, || format!("`{}` = {} but `BigDecimal / BigDecimal` = {}", name, g.tok(), f.tok()));
                            }
                        }
                    }
                }
            }
            ctx.end_case(case.hash(), nontrivial);
            if ctx.want_sample() && nontrivial {
                if let Some(f) = first { ctx.sample(case, format!("quotient {} ({} digits) is within half an ulp, all 4 ownership forms identical", crate::monitor::abbreviate(&f.tok(), 140), ndigits(&f.n))); }
            }
        }
        #[cfg(not(feature = "slim"))]
        "prim" => {
            let ad = match Dec::from_tok(case.arg(0)) { Some(a) => a, None => return };
            let sel: u64 = case.arg(1).parse().unwrap_or(0);
            ctx.begin_case(case);
            let a = ad.bd();
            let adr = &ad;
            let wide: u128 = (sel as u128).wrapping_mul(0x1_0000_0001_0000_0001u128);
            macro_rules! ints { ($t:ty, $($v:expr),*) => {{ $( int_prim_case!(ctx, case, a, adr, $t, $v, prec); )* }}; }
            match sel % 12 {
                0 => ints!(u8, 1, 2, 3, u8::MAX, (wide >> 9) as u8),
                1 => ints!(u16, 1, 2, 7, u16::MAX, (wide >> 9) as u16),
                2 => ints!(u32, 1, 2, 10, u32::MAX, (wide >> 9) as u32),
                3 => ints!(u64, 1, 2, 5, u64::MAX, (wide >> 9) as u64),
                4 => ints!(u128, 1, 2, 9, u128::MAX, wide >> 9),
                5 => ints!(i8, 1, -1, 2, -2, i8::MIN, i8::MAX, (wide >> 9) as i8),
                6 => ints!(i16, 1, -1, 2, -2, i16::MIN, i16::MAX, (wide >> 9) as i16),
                7 => ints!(i32, 1, -1, 2, -2, i32::MIN, i32::MAX, (wide >> 9) as i32),
                8 => ints!(i64, 1, -1, 2, -2, i64::MIN, i64::MAX, (wide >> 9) as i64),
                9 => ints!(i128, 1, -1, 2, -2, i128::MIN, i128::MAX, (wide >> 9) as i128),
                10 => {
                    let bits = ((sel >> 16) as u32 & 0x807f_ffff) | ((((sel >> 4) % 254) as u32 + 1) << 23);
                    for v in [1.0f32, -1.0, 2.0, -2.0, 0.1, 0.5, 3.0, f32::MIN_POSITIVE, f32::MAX, 1.1754945e-38, f32::from_bits(bits), 1024.0, 1e-3] {
                        float_prim_case!(ctx, case, a, adr, f32, v, prec);
                    }
                }
                _ => {
                    let bits = ((sel << 7) & 0x800f_ffff_ffff_ffff) | (((sel % 2046) + 1) << 52);
                    for v in [1.0f64, -1.0, 2.0, -2.0, 0.1, 0.25, 3.0, f64::MIN_POSITIVE, f64::MAX, 2.2250738585072014e-308, f64::from_bits(bits), 65536.0, 1e-7] {
                        float_prim_case!(ctx, case, a, adr, f64, v, prec);
                    }
                }
            }
            ctx.end_case(case.hash(), !ad.is_zero());
        }
        #[cfg(not(feature = "slim"))]
        "zero" => {
            let ad = match Dec::from_tok(case.arg(0)) { Some(a) => a, None => return };
            let zs: i64 = case.arg(1).parse().unwrap_or(0);
            ctx.begin_case(case);
            let a = ad.bd();
            let z = BigDecimal::new(BigInt::zero(), zs);
            let mut bad: Vec<String> = vec![];
            {
                let mut probe = |name: &str, r: Result<BigDecimal, String>| {
                    if let Ok(v) = r { bad.push(format!("`{}` returned {}", name, Dec::of(&v).tok())); }
                };
                probe("BigDecimal / zero", ctx.guard(|| a.clone() / z.clone()));
                probe("BigDecimal / &zero", ctx.guard(|| a.clone() / &z));
                probe("&BigDecimal / zero", ctx.guard(|| &a / z.clone()));
                probe("&BigDecimal / &zero", ctx.guard(|| &a / &z));
            }
            zero_int_forms!(ctx, bad, a, z, u8);
            zero_int_forms!(ctx, bad, a, z, u16);
            zero_int_forms!(ctx, bad, a, z, u32);
            zero_int_forms!(ctx, bad, a, z, u64);
            zero_int_forms!(ctx, bad, a, z, u128);
            zero_int_forms!(ctx, bad, a, z, i8);
            zero_int_forms!(ctx, bad, a, z, i16);
            zero_int_forms!(ctx, bad, a, z, i32);
            zero_int_forms!(ctx, bad, a, z, i64);
            zero_int_forms!(ctx, bad, a, z, i128);
            zero_float_forms!(ctx, bad, z, f32);
            zero_float_forms!(ctx, bad, z, f64);
            ctx.out_u64(bad.len() as u64);
            ctx.check(bad.is_empty(), "div/zero-divisor-did-not-panic", case, || format!("numerator {} zero divisor with scale {}: {}", ad.tok(), zs, bad.join("; ")));
            ctx.end_case(case.hash(), true);
            if ctx.want_sample() {
                ctx.sample(case, "all 294 zero-divisor call shapes panicked".into());
            }
        }
        _ => {}
    }
}

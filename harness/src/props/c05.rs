//! C05 — parsing yields exactly the denoted number, rejects all else, never panics

use crate::gen::{self, Dec, Rng};
use crate::monitor::{Case, Ctx};
use crate::{PropDef, Tier, Unit};
use bigdecimal::{BigDecimal, Num};
use num_bigint::BigInt;
use num_traits::Zero;
use std::str::FromStr;

pub fn def() -> PropDef {
    PropDef {
        id: "C05",
        plan,
        run_unit,
        replay,
        required_probes: &["Parse_NoDot", "Parse_DotLast", "Parse_DotInside", "Parse_Exponent"],
        rule: "exhaustive: every string of length 0..L over the 11-symbol alphabet {0,1,7,+,-,.,e,E,_,x,space} (L=7 quick, L=8 thorough) through from_str, compared with a byte-level reference recogniser written from the statement (accept/reject and exact (digits, scale)); seeded: grammar-generated numerals up to 5000 digits with underscores, exponents around +-(2^63+-2), 2^127 and 40-digit exponents, byte-level mutations of valid numerals (signs, dots, underscores, NUL, space, non-ASCII digits, multi-byte chars) through from_str, str::parse, from_str_radix(s,10), parse_bytes (also invalid UTF-8), and radix != 10. distinct = distinct input strings; non-trivial = strings containing at least one digit (both accepted and rejected ones)",
    }
}

const ALPHABET: &[u8] = b"017+-.eE_x ";

fn count_strings(max_len: u32) -> u64 {
    (0..=max_len).map(|l| 11u64.pow(l)).sum()
}

fn plan(tier: Tier) -> Vec<Unit> {
    match tier {
        Tier::Quick => {
            let mut v = crate::util::split_budget("exhaustive", count_strings(7), 200_000);
            v.extend(crate::util::split_budget("numerals", 60_000, 1_000));
            v.extend(crate::util::split_budget("mutations", 400_000, 5_000));
            v
        }
        Tier::Thorough => {
            let mut v = crate::util::split_budget("exhaustive", count_strings(8), 400_000);
            v.extend(crate::util::split_budget("numerals", 600_000, 2_000));
            v.extend(crate::util::split_budget("mutations", 4_000_000, 20_000));
            v
        }
        Tier::Miri => {
            let mut v = crate::util::split_budget("exhaustive", count_strings(2), 70);
            v.extend(crate::util::split_budget("numerals", 6, 3));
            v.extend(crate::util::split_budget("mutations", 60, 15));
            v
        }
    }
}

fn parse_i128(e: &[u8]) -> Option<i128> {
    let (neg, ds) = match e.first() {
        Some(b'+') => (false, &e[1..]),
        Some(b'-') => (true, &e[1..]),
        _ => (false, e),
    };
    if ds.is_empty() {
        return None;
    }
    let mut v: i128 = 0;
    for &c in ds {
        if !c.is_ascii_digit() {
            return None;
        }
        let d = (c - b'0') as i128;
        v = v.checked_mul(10)?;
        v = if neg { v.checked_sub(d)? } else { v.checked_add(d)? };
    }
    Some(v)
}

/// The reference recogniser, written from the statement: optional sign, digits with optional '_'
/// after the first digit, at most one '.', at least one digit, optional e/E exponent with optional sign.
/// Returns (negative, digit string, scale).
pub fn recognise(s: &[u8]) -> Option<(bool, Vec<u8>, i64)> {
    let (base, exp) = match s.iter().position(|c| *c == b'e' || *c == b'E') {
        Some(i) => (&s[..i], Some(&s[i + 1..])),
        None => (s, None),
    };
    let exp_val: i128 = match exp {
        None => 0,
        Some(e) => parse_i128(e)?,
    };
    let (neg, mant) = match base.first() {
        Some(b'+') => (false, &base[1..]),
        Some(b'-') => (true, &base[1..]),
        _ => (false, base),
    };
    let mut digits = Vec::with_capacity(mant.len());
    let mut frac: i128 = 0;
    let mut seen_dot = false;
    for &c in mant {
        match c {
            b'0'..=b'9' => {
                digits.push(c);
                if seen_dot {
                    frac += 1;
                }
            }
            b'_' => {
                if digits.is_empty() {
                    return None;
                }
            }
            b'.' => {
                if seen_dot {
                    return None;
                }
                seen_dot = true;
            }
            _ => return None,
        }
    }
    if digits.is_empty() {
        return None;
    }
    let scale = frac.checked_sub(exp_val)?;
    let scale = i64::try_from(scale).ok()?;
    Some((neg, digits, scale))
}

fn model_value(neg: bool, digits: &[u8]) -> BigInt {
    let mut n = BigInt::parse_bytes(digits, 10).expect("model digits");
    if neg {
        n = -n;
    }
    n
}

fn index_to_string(mut idx: u64, buf: &mut Vec<u8>) {
    // strings ordered by length then lexicographic index
    buf.clear();
    let mut len = 0u32;
    loop {
        let n = 11u64.pow(len);
        if idx < n {
            break;
        }
        idx -= n;
        len += 1;
    }
    for _ in 0..len {
        buf.push(ALPHABET[(idx % 11) as usize]);
        idx /= 11;
    }
}

/// judge one string through `from_str` (hot path: no allocation of a Case unless something is wrong)
#[inline]
fn judge_from_str(ctx: &mut Ctx, unit_case: &Case, s: &str, all_entries: bool) {
    let want = recognise(s.as_bytes());
    let got = ctx.guard(|| BigDecimal::from_str(s));
    let mk = || Case::new("string").push(hex(s.as_bytes()));
    let _ = unit_case;
    match got {
        Err(p) => ctx.fail("parse/panic", &mk(), format!("from_str({:?}) panicked: {}", s, p)),
        Ok(res) => {
            match (&res, &want) {
                (Ok(b), Some((neg, digits, scale))) => {
                    let (n, sc) = b.as_bigint_and_exponent();
                    ctx.out_bd(b);
                    if n == model_value(*neg, digits) && sc == *scale {
                        ctx.ok();
                    } else {
                        ctx.fail("parse/wrong-value", &mk(), format!("from_str({:?}) = {}e{} but the numeral denotes {}{}e{}", s, n, -(sc as i128), if *neg { "-" } else { "" }, String::from_utf8_lossy(digits), -(*scale as i128)));
                    }
                }
                (Err(_), None) => {
                    ctx.out("E");
                    ctx.ok();
                }
                (Ok(b), None) => {
                    let (n, sc) = b.as_bigint_and_exponent();
                    ctx.fail("parse/accepted-non-numeral", &mk(), format!("from_str({:?}) accepted a string that is not a decimal numeral, giving {}e{}", s, n, -(sc as i128)));
                }
                (Err(e), Some((neg, digits, scale))) => {
                    ctx.fail("parse/rejected-numeral", &mk(), format!("from_str({:?}) = Err({}) but it is the numeral {}{}e{}", s, e, if *neg { "-" } else { "" }, String::from_utf8_lossy(&digits[..digits.len().min(60)]), -(*scale as i128)));
                }
            }
            if all_entries {
                // the other three entry points must agree with from_str
                let r = ctx.guard(|| {
                    let a: Result<BigDecimal, _> = s.parse();
                    let b = BigDecimal::from_str_radix(s, 10);
                    let c = BigDecimal::parse_bytes(s.as_bytes(), 10);
                    (a.ok(), b.ok(), c)
                });
                ctx.more_evals(2);
                match r {
                    Err(p) => ctx.fail("parse/panic", &mk(), format!("parse / from_str_radix / parse_bytes of {:?} panicked: {}", s, p)),
                    Ok((a, b, c)) => {
                        let key = |x: &Option<BigDecimal>| x.as_ref().map(|v| v.as_bigint_and_exponent());
                        let base = key(&res.ok());
                        ctx.check(key(&a) == base && key(&b) == base && key(&c) == base, "parse/entry-points-disagree", &mk(), || format!(
                            "entry points disagree on {:?}: from_str={:?} parse={:?} from_str_radix={:?} parse_bytes={:?}", s, base.is_some(), a.is_some(), b.is_some(), c.is_some()));
                    }
                }
            }
        }
    }
}

fn hex(b: &[u8]) -> String {
    let mut s = String::with_capacity(b.len() * 2 + 2);
    s.push_str("x:");
    for c in b {
        s.push_str(&format!("{:02x}", c));
    }
    s
}

fn unhex(t: &str) -> Option<Vec<u8>> {
    let h = t.strip_prefix("x:")?;
    if h.len() % 2 != 0 {
        return None;
    }
    (0..h.len() / 2).map(|i| u8::from_str_radix(&h[2 * i..2 * i + 2], 16).ok()).collect()
}

fn gen_numeral(r: &mut Rng) -> String {
    let mut s = String::new();
    match r.below(4) {
        0 => s.push('+'),
        1 => s.push('-'),
        _ => {}
    }
    let lmax = if cfg!(miri) { 40 } else if r.chance(1, 25) { 5000 } else if r.chance(1, 5) { 300 } else { 30 };
    let int_len = if r.chance(1, 6) { 0 } else { gen::length(r, lmax) };
    let frac_len = if r.chance(1, 3) { 0 } else { gen::length(r, lmax) };
    // separator density: none (half of the numerals), dense, or sparse
    let us_den = match r.below(4) { 0 | 1 => 0, 2 => 9, _ => 300 };
    let put_digits = |r: &mut Rng, s: &mut String, n: usize| {
        for i in 0..n {
            s.push((b'0' + r.below(10) as u8) as char);
            if us_den > 0 && i + 1 < n && r.chance(1, us_den) {
                s.push('_');
            }
        }
        if us_den > 0 && n > 0 && r.chance(1, 12) {
            s.push('_');
        }
    };
    put_digits(r, &mut s, int_len);
    if frac_len > 0 || r.chance(1, 4) || int_len == 0 {
        s.push('.');
        put_digits(r, &mut s, if int_len == 0 && frac_len == 0 { 1 } else { frac_len });
    }
    if r.chance(2, 3) {
        s.push(if r.bool() { 'e' } else { 'E' });
        match r.below(3) {
            0 => s.push('+'),
            1 => s.push('-'),
            _ => {}
        }
        let e: String = match r.below(9) {
            0 => r.range(0, 30).to_string(),
            1 => r.range(0, 5000).to_string(),
            2 => ((1i128 << 63) + r.range(-3, 3) as i128).to_string(),
            3 => ((1i128 << 63) + r.range(-3, 3) as i128 + frac_len as i128).to_string(),
            4 => (i128::MAX - r.range(0, 2) as i128).to_string(),
            5 => format!("{}{}", "0".repeat(r.below(40) as usize), r.range(0, 99)),
            6 => "0".repeat(40),
            7 => gen::digit_string(r, 40),
            _ => r.range(0, i64::MAX).to_string(),
        };
        s.push_str(&e);
    }
    s
}

fn mutate(r: &mut Rng, s: &str) -> Vec<u8> {
    const INS: &[&[u8]] = &[b"+", b"-", b".", b"_", b"e", b"E", b"\0", b" ", b"\xd9\xa3", b"\xef\xbc\x93", b"\xc3\xa9", b"x", b"0", b"9", b"\xff", b"\xe2\x82", b"1e", b"--", b"..", b"\n", b"\t", b",", b"I", b"N", b"inf", b"nan"];
    let mut b = s.as_bytes().to_vec();
    let n = 1 + r.below(3);
    for _ in 0..n {
        let pos = r.below(b.len() as u64 + 1) as usize;
        match r.below(4) {
            0 | 1 => {
                let ins = *r.pick(INS);
                b.splice(pos..pos, ins.iter().copied());
            }
            2 => {
                if pos < b.len() {
                    b.remove(pos);
                }
            }
            _ => {
                if pos < b.len() {
                    let ins = *r.pick(INS);
                    b.splice(pos..pos + 1, ins.iter().copied());
                }
            }
        }
    }
    b
}

fn judge_bytes(ctx: &mut Ctx, bytes: &[u8]) {
    let case = Case::new("bytes").push(hex(bytes));
    ctx.begin_case(&case);
    match std::str::from_utf8(bytes) {
        Ok(s) => {
            judge_from_str(ctx, &case, s, true);
            // any radix other than 10 is an error, without panic
            for radix in [0u32, 1, 2, 8, 16, 36, 37, 11, 9, u32::MAX] {
                let r = ctx.guard(|| (BigDecimal::from_str_radix(s, radix).is_ok(), BigDecimal::parse_bytes(bytes, radix).is_some()));
                match r {
                    Err(p) => ctx.fail("parse/radix-panic", &case, format!("from_str_radix({:?}, {}) panicked: {}", s, radix, p)),
                    Ok((a, b)) => {
                        ctx.check(!a && !b, "parse/radix-accepted", &case, || format!("radix {} accepted {:?}", radix, s));
                    }
                }
            }
        }
        Err(_) => {
            let r = ctx.guard(|| BigDecimal::parse_bytes(bytes, 10));
            match r {
                Err(p) => ctx.fail("parse/panic", &case, format!("parse_bytes(invalid utf-8) panicked: {}", p)),
                Ok(v) => {
                    ctx.check(v.is_none(), "parse/accepted-invalid-utf8", &case, || "parse_bytes accepted invalid UTF-8".to_string());
                }
            }
        }
    }
    let nontrivial = bytes.iter().any(|c| c.is_ascii_digit());
    ctx.end_case(case.hash(), nontrivial);
    if ctx.want_sample() && nontrivial && bytes.len() < 60 {
        let verdict = recognise(bytes).map(|(n, d, s)| format!("numeral {}{}e{}", if n { "-" } else { "" }, String::from_utf8_lossy(&d), -(s as i128))).unwrap_or_else(|| "not a numeral".into());
        ctx.sample(&case, format!("{:?}: recogniser says {}; from_str / parse / from_str_radix / parse_bytes agree", String::from_utf8_lossy(bytes), verdict));
    }
}

fn run_unit(unit: &Unit, r: &mut Rng, ctx: &mut Ctx) {
    match unit.kind {
        "exhaustive" => {
            let case = Case::new("exhaustive-range").push(unit.start).push(unit.count);
            ctx.begin_case(&case);
            let mut buf = Vec::with_capacity(16);
            let mut nontrivial = 0u64;
            for idx in unit.start..unit.start + unit.count {
                index_to_string(idx, &mut buf);
                let s = std::str::from_utf8(&buf).unwrap();
                judge_from_str(ctx, &case, s, idx % 64 == 0);
                if buf.iter().any(|c| c.is_ascii_digit()) {
                    nontrivial += 1;
                }
            }
            ctx.enumerated_nontrivial += nontrivial;
            ctx.end_case(case.hash(), false);
            if unit.start == 0 {
                ctx.exhaustive_notes.push("C05: every string up to the tier's length bound over the alphabet {0,1,7,+,-,.,e,E,_,x,space} (length <= 7: 21 435 888 strings; length <= 8: 235 794 769)".into());
            }
        }
        "numerals" => {
            for _ in 0..unit.count {
                let s = gen_numeral(r);
                judge_bytes(ctx, s.as_bytes());
            }
        }
        "mutations" => {
            for _ in 0..unit.count {
                let s = gen_numeral(r);
                let s = if s.len() > 200 { s[..200].to_string() } else { s };
                let m = mutate(r, &s);
                judge_bytes(ctx, &m);
            }
        }
        _ => {}
    }
}

fn replay(case: &Case, ctx: &mut Ctx) {
    match case.kind() {
        "string" | "bytes" => {
            if let Some(b) = unhex(case.arg(0)) {
                judge_bytes(ctx, &b);
            }
        }
        "exhaustive-range" => {
            let start: u64 = case.arg(0).parse().unwrap_or(0);
            let count: u64 = case.arg(1).parse().unwrap_or(0);
            let u = Unit { kind: "exhaustive", start, count, param: 0 };
            let mut r = Rng::new(0, 0, 0);
            run_unit(&u, &mut r, ctx);
        }
        _ => {}
    }
    let _ = Dec::new(BigInt::zero(), 0);
}

//! C15 — integer conversions truncate toward zero and report overflow as None

use crate::gen::{self, pow10, Dec, Rng};
use crate::model;
use crate::monitor::{Case, Ctx};
use crate::{PropDef, Tier, Unit};
use bigdecimal::{BigDecimal, FromPrimitive, ToPrimitive};
use num_bigint::{BigInt, ToBigInt};
use num_traits::{Signed, Zero};

pub fn def() -> PropDef {
    PropDef {
        id: "C15",
        plan,
        run_unit,
        replay,
        required_probes: &["ToInt_Fast", "ToInt_Rescale", "Tows_DownU64", "Tows_DownBig", "Tows_UpU64", "Tows_UpBig"],
        rule: "exhaustive small scope: every |n| <= 20000 x scales -6..6; exhaustive m*10^k at scale k, m*10^k + 1 at scale k and m at scale -k for k = 0..400 (m in +-1, +-2, 5, 10, 25, 99, and the 192 machine-word boundary integers for k <= 45); then seeded decimals of 1..60 digits at scales -40..40 concentrated on values within +-2 and +-0.5 of every integer type's MIN and MAX (written at scales 0..3 and as negative-scale representations k*10^j), fractions in (-1,1), small unscaled values pushed past a limit by a negative scale, zeros with any scale; each through to_i8..to_i128, to_u8..to_u128, to_isize/to_usize, to_bigint on value and reference, and is_integer, judged against trunc(value) in the model (signed: Some iff it fits; unsigned: None for every negative decimal, else Some iff it fits); constructors From<prim>, From<&prim>, From<BigInt>, From<(T, i64)>, FromPrimitive::from_* for MIN/MAX/0/+-1/random of every primitive type must store the exact integer at scale 0 (resp. the given scale). distinct = distinct decimals; non-trivial = non-zero fractional part or magnitude within 2 of a type limit",
    }
}

fn plan(tier: Tier) -> Vec<Unit> {
    match tier {
        Tier::Quick => {
            let mut v = crate::util::split_budget("convert", 1_000_000, 10_000);
            v.extend(crate::util::split_budget("small", 40_001, 1_000));
            v.extend(crate::util::split_budget("construct", 40_000, 1_000));
            v.extend(crate::util::split_budget("pow10", 401, 20));
            v
        }
        Tier::Thorough => {
            let mut v = crate::util::split_budget("convert", 120_000_000, 100_000);
            v.extend(crate::util::split_budget("small", 40_001, 500));
            v.extend(crate::util::split_budget("construct", 3_000_000, 10_000));
            v.extend(crate::util::split_budget("pow10", 401, 20));
            v
        }
        Tier::Miri => {
            let mut v = crate::util::split_budget("convert", 8, 4);
            v.extend(crate::util::split_budget("construct", 2, 1));
            v
        }
    }
}

fn limits() -> Vec<BigInt> {
    vec![
        BigInt::from(i8::MIN), BigInt::from(i8::MAX), BigInt::from(u8::MAX),
        BigInt::from(i16::MIN), BigInt::from(i16::MAX), BigInt::from(u16::MAX),
        BigInt::from(i32::MIN), BigInt::from(i32::MAX), BigInt::from(u32::MAX),
        BigInt::from(i64::MIN), BigInt::from(i64::MAX), BigInt::from(u64::MAX),
        BigInt::from(i128::MIN), BigInt::from(i128::MAX), BigInt::from(u128::MAX),
        BigInt::zero(),
    ]
}

fn gen_value(r: &mut Rng) -> Dec {
    let lim = limits();
    match r.below(10) {
        0..=3 => {
            // near a limit: limit + d (d in -2..2) (+ fraction), written at scale 0..3 or via a negative scale
            let l = r.pick(&lim).clone();
            let d = r.range(-2, 2);
            let sc = r.range(0, 3);
            let frac = match r.below(4) { 0 => 0, 1 => 5 * 10i64.pow(sc.max(1) as u32 - 1), 2 => r.range(0, 10i64.pow(sc as u32) - 1), _ => 10i64.pow(sc as u32) - 1 };
            let base = (l + d) * pow10(sc as u64);
            let n = if base.is_negative() { base - frac } else if base.is_zero() && r.bool() { -BigInt::from(frac) } else { base + frac };
            Dec::new(n, sc)
        }
        4 => {
            // negative-scale representation k * 10^j that lands near / past a limit
            let l = r.pick(&lim).clone();
            let j = r.range(1, 40);
            let k = if r.bool() { &l / pow10(j as u64) + r.range(-1, 1) } else { BigInt::from(r.range(-20, 20)) };
            Dec::new(k, -j)
        }
        5 => {
            // fractions in (-1, 1)
            let n = gen::int_nonzero(r, 20);
            let extra = r.range(0, 20);
            let nd = gen::ndigits(&n) as i64;
            Dec::new(n, nd + extra)
        }
        6 => Dec::new(BigInt::zero(), r.range(-40, 40)),
        7 => {
            // integers written with trailing fractional zeros
            let l = r.pick(&lim).clone() + r.range(-1, 1);
            let k = r.range(1, 25);
            Dec::new(l * pow10(k as u64), k)
        }
        _ => gen::dec(r, 60, 40),
    }
}

fn run_unit(unit: &Unit, r: &mut Rng, ctx: &mut Ctx) {
    match unit.kind {
        "convert" => {
            for _ in 0..unit.count {
                let d = gen_value(r);
                let case = Case::new("convert").push(d.tok());
                check_case(&case, ctx);
            }
        }
        "pow10" => {
            // exhaustive: m * 10^k written with k fractional zeros (an integer), the same plus one unit in the last
            // place (not an integer), and m with scale -k, for k = 0..=400, m in {+-1, +-2, 5, 10, 25, 99} and the
            // machine-word boundary integers for k <= 45
            let w = gen::word_values();
            for idx in unit.start..unit.start + unit.count {
                let k = idx as i64;
                let mut ms: Vec<BigInt> = [1i64, -1, 2, -2, 5, 10, 25, 99].iter().map(|m| BigInt::from(*m)).collect();
                if k <= 45 { ms.extend(w.iter().cloned()); }
                for m in &ms {
                    for d in [Dec::new(m * pow10(k as u64), k), Dec::new(m * pow10(k as u64) + 1, k), Dec::new(m.clone(), -k)] {
                        let case = Case::new("convert").push(d.tok());
                        check_case(&case, ctx);
                    }
                }
            }
            if unit.start == 0 {
                ctx.exhaustive_notes.push("C15 powers of ten: m*10^k at scale k, m*10^k + 1 at scale k, m at scale -k for k = 0..400, m in {+-1, +-2, 5, 10, 25, 99}; machine-word boundary integers m for k <= 45".into());
            }
        }
        "small" => {
            // exhaustive: every |n| <= 20000 x scale -6..=6
            for idx in unit.start..unit.start + unit.count {
                let n = idx as i64 - 20_000;
                for s in -6i64..=6 {
                    let case = Case::new("convert").push(Dec::new(BigInt::from(n), s).tok());
                    check_case(&case, ctx);
                }
            }
            if unit.start == 0 {
                ctx.exhaustive_notes.push("C15 small scope: every |n| <= 20000 x scales -6..6 (520 013 values x 14 conversions on value and reference)".into());
            }
        }
        "construct" => {
            for _ in 0..unit.count {
                let case = Case::new("construct").push(r.next()).push(r.range(-1000, 1000));
                check_case(&case, ctx);
            }
        }
        _ => {}
    }
}

fn replay(case: &Case, ctx: &mut Ctx) {
    check_case(case, ctx);
}

macro_rules! conv {
    ($ctx:ident, $case:ident, $b:ident, $t:ident, $d:ident, $method:ident, $ty:ty, $unsigned:expr) => {{
        let want: Option<$ty> = if $unsigned && $d.n.is_negative() { None } else { <$ty>::try_from($t.clone()).ok() };
        match $ctx.guard(|| ($b.$method(), $b.to_ref().$method())) {
            Err(p) => $ctx.fail("to-int/panic", $case, format!("{} of {} panicked: {}", stringify!($method), $d.tok(), p)),
            Ok((g, gr)) => {
                $ctx.more_evals(1);
                $ctx.out(&format!("{:?}", g));
                $ctx.check(g == want, concat!("to-int/", stringify!($method)), $case, || format!("{}({}) = {:?} want {:?}", stringify!($method), $d.tok(), g, want));
                $ctx.check(gr == g, "to-int/value-vs-ref", $case, || format!("{}: value gives {:?}, reference gives {:?}", stringify!($method), g, gr));
            }
        }
    }};
}

macro_rules! construct {
    ($ctx:ident, $case:ident, $ty:ty, $from_method:ident, $vals:expr, $scale:expr) => {{
        for v in $vals {
            let v: $ty = v;
            let want = Dec::new(BigInt::from(v), 0);
            let r = $ctx.guard(|| (BigDecimal::from(v), BigDecimal::from(&v), BigDecimal::$from_method(v), BigDecimal::from((v, $scale))));
            match r {
                Err(p) => $ctx.fail("from-int/panic", $case, format!("From<{}> of {} panicked: {}", stringify!($ty), v, p)),
                Ok((a, b, c, d)) => {
                    $ctx.more_evals(3);
                    let ok = Dec::of(&a) == want && Dec::of(&b) == want && c.as_ref().map(Dec::of) == Some(want.clone()) && Dec::of(&d) == Dec::new(BigInt::from(v), $scale);
                    $ctx.check(ok, "from-int/not-exact", $case, || format!("constructing from {} {}: From={} From<&>={} from_*={:?} From<(T,i64)>={}", stringify!($ty), v, Dec::of(&a).tok(), Dec::of(&b).tok(), c.as_ref().map(|x| Dec::of(x).tok()), Dec::of(&d).tok()));
                }
            }
        }
    }};
}

pub fn check_case(case: &Case, ctx: &mut Ctx) {
    match case.kind() {
        "convert" => {
            let d = match Dec::from_tok(case.arg(0)) { Some(d) => d, None => return };
            ctx.begin_case(case);
            let b = d.bd();
            let t = model::trunc_int(&d);
            conv!(ctx, case, b, t, d, to_i8, i8, false);
            conv!(ctx, case, b, t, d, to_i16, i16, false);
            conv!(ctx, case, b, t, d, to_i32, i32, false);
            conv!(ctx, case, b, t, d, to_i64, i64, false);
            conv!(ctx, case, b, t, d, to_i128, i128, false);
            conv!(ctx, case, b, t, d, to_isize, isize, false);
            conv!(ctx, case, b, t, d, to_u8, u8, true);
            conv!(ctx, case, b, t, d, to_u16, u16, true);
            conv!(ctx, case, b, t, d, to_u32, u32, true);
            conv!(ctx, case, b, t, d, to_u64, u64, true);
            conv!(ctx, case, b, t, d, to_u128, u128, true);
            conv!(ctx, case, b, t, d, to_usize, usize, true);
            match ctx.guard(|| (b.to_bigint(), b.is_integer())) {
                Err(p) => ctx.fail("to-int/panic", case, format!("to_bigint / is_integer of {} panicked: {}", d.tok(), p)),
                Ok((g, isint)) => {
                    ctx.more_evals(1);
                    let held = ctx.check(g.as_ref() == Some(&t), "to-int/to_bigint", case, || format!("to_bigint({}) = {:?} want {}", d.tok(), g, t));
                    if ctx.want_event() {
                        ctx.log("trunc", &[d.tok()], serde_json::json!({}), g.as_ref().map(|x| x.to_string()).unwrap_or_default(), held);
                    }
                    let want = model::frac_is_zero(&d);
                    ctx.check(isint == want, "is_integer/wrong", case, || format!("is_integer({}) = {} want {}", d.tok(), isint, want));
                }
            }
            let near_limit = limits().iter().any(|l| (&t - l).abs() <= BigInt::from(2));
            let nontrivial = !model::frac_is_zero(&d) || near_limit;
            ctx.end_case(case.hash(), nontrivial);
            if ctx.want_sample() && nontrivial && !d.n.is_zero() {
                ctx.sample(case, format!("trunc = {}; to_i64 = {:?}, to_u64 = {:?}, to_i128 = {:?}", t, b.to_i64(), b.to_u64(), b.to_i128()));
            }
        }
        "construct" => {
            let sel: u64 = case.arg(0).parse().unwrap_or(0);
            let scale: i64 = case.arg(1).parse().unwrap_or(0);
            ctx.begin_case(case);
            let w: u128 = (sel as u128).wrapping_mul(0x1_0000_0001_0000_0001u128);
            construct!(ctx, case, u8, from_u8, [0, 1, u8::MAX, w as u8], scale);
            construct!(ctx, case, u16, from_u16, [0, 1, u16::MAX, w as u16], scale);
            construct!(ctx, case, u32, from_u32, [0, 1, u32::MAX, w as u32], scale);
            construct!(ctx, case, u64, from_u64, [0, 1, u64::MAX, w as u64], scale);
            construct!(ctx, case, u128, from_u128, [0, 1, u128::MAX, w], scale);
            construct!(ctx, case, i8, from_i8, [0, 1, -1, i8::MIN, i8::MAX, w as i8], scale);
            construct!(ctx, case, i16, from_i16, [0, 1, -1, i16::MIN, i16::MAX, w as i16], scale);
            construct!(ctx, case, i32, from_i32, [0, 1, -1, i32::MIN, i32::MAX, w as i32], scale);
            construct!(ctx, case, i64, from_i64, [0, 1, -1, i64::MIN, i64::MAX, w as i64], scale);
            construct!(ctx, case, i128, from_i128, [0, 1, -1, i128::MIN, i128::MAX, w as i128], scale);
            // big integers
            let big: BigInt = BigInt::from(w) * BigInt::from(w) * BigInt::from(if sel & 1 == 0 { 1i32 } else { -1i32 });
            match ctx.guard(|| (BigDecimal::from(big.clone()), BigDecimal::from((big.clone(), scale)), BigDecimal::new(big.clone(), scale))) {
                Err(p) => ctx.fail("from-int/panic", case, format!("From<BigInt> panicked: {}", p)),
                Ok((a, b, c)) => {
                    ctx.check(Dec::of(&a) == Dec::new(big.clone(), 0) && Dec::of(&b) == Dec::new(big.clone(), scale) && Dec::of(&c) == Dec::new(big.clone(), scale), "from-int/not-exact", case, || "From<BigInt> / From<(BigInt, i64)> / new not exact".into());
                }
            }
            ctx.end_case(case.hash(), true);
        }
        _ => {}
    }
}

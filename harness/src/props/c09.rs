//! C09 — remainder satisfies the truncated-division identity exactly

use crate::gen::{self, pow10, Dec, Rng};
use crate::model;
use crate::monitor::{Case, Ctx};
use crate::{PropDef, Tier, Unit};
use bigdecimal::BigDecimal;
use num_bigint::BigInt;
use num_traits::{One, Signed, Zero};
use std::cmp::Ordering;

pub fn def() -> PropDef {
    PropDef {
        id: "C09",
        plan,
        run_unit,
        replay,
        required_probes: &["SetScale_UpU64", "SetScale_UpBig", "TenPow_Lt20", "TenPow_Lt590", "TenPow_Recursive"],
        rule: "exhaustive small scope: every pair na*10^-sa, nb*10^-sb with |na| <= 150, 1 <= |nb| <= 60, scales 0..2; exhaustive machine-word boundaries: aligned integers +-(2^k + d) against +-1, +-2, +-3, +-7, +-10 and +-(2^j + e) for k, j in {7..192 word sizes}, d, e in -1..=1, both orders; small-quotient pairs a = b*q + tail written 0..1990 digits finer than b (q in 0..1000, mostly 0..2; b also 1, 2, 2^k, 10^k: the `x % 1` idiom; tails zero, tiny, just below |b|, short, random); then seeded pairs (a, b != 0) of 1..2000 digits with scale gaps 0..10^4 in both directions (19, 20, 255..257, 589..591 included), both signs, |a| < = > |b|, a an exact multiple of b, value-equal representations, equal digits at different scales; each pair through the 4 ownership forms and %=, judged against the aligned truncated integer remainder: exact value, |r| < |b|, r = 0 or sign(r) = sign(a), r(a,b) = r(a,-b), a = b*trunc(a/b) + r in the model, all five forms equal; zero divisors (any scale, any numerator including zero and operands much shorter than the scale gap) must panic in all five forms. distinct = distinct (a, b); non-trivial = both non-zero and the model remainder is non-zero",
    }
}

fn plan(tier: Tier) -> Vec<Unit> {
    match tier {
        Tier::Quick => {
            let mut v = crate::util::split_budget("pairs", 500_000, 5_000);
            v.extend(crate::util::split_budget("small", 301, 7));
            v.extend(crate::util::split_budget("zero", 20_000, 1_000));
            v.extend(crate::util::split_budget("quot", 60_000, 2_000));
            v.extend(crate::util::split_budget("words", WORDS.len() as u64 * 6, 6));
            v
        }
        Tier::Thorough => {
            let mut v = crate::util::split_budget("pairs", 60_000_000, 20_000);
            v.extend(crate::util::split_budget("small", 301, 7));
            v.extend(crate::util::split_budget("zero", 1_000_000, 5_000));
            v.extend(crate::util::split_budget("quot", 2_000_000, 10_000));
            v.extend(crate::util::split_budget("words", WORDS.len() as u64 * 6, 6));
            v
        }
        Tier::Miri => {
            let mut v = crate::util::split_budget("pairs", 6, 3);
            v.extend(crate::util::split_budget("zero", 2, 1));
            v
        }
    }
}

/// Exponents k of the machine-word boundaries 2^k the "words" units walk
const WORDS: [u32; 14] = [7, 8, 15, 16, 31, 32, 52, 53, 63, 64, 96, 127, 128, 192];

/// 2^k + d, signed
fn word(k: u32, d: i64, neg: bool) -> BigInt {
    let v = (BigInt::one() << (k as usize)) + d;
    if neg { -v } else { v }
}

/// Small-quotient pairs: a = b*q + tail written `gap` digits finer than b, so that |a/b| lies in [q, q+1) for a
/// small q and the dividend is (much) longer than the divisor: the `x % 1` fractional-part idiom, exact multiples
/// with long zero tails, dividends barely above / below the shifted divisor.
fn gen_quot(r: &mut Rng, i: u64) -> (Dec, Dec) {
    let b = match r.below(4) {
        0 => {
            // the idiomatic divisors: 1, 2, 4, 5, 8, 10, 2^k, 10^k, also written with trailing zeros
            let n = match r.below(4) {
                0 => BigInt::from(*r.pick(&[1i64, 1, 1, 2, 2, 4, 5, 8, 10, 16, 25, 32, 64, 100, 128, 1024])),
                1 => BigInt::one() << (r.below(200) as usize),
                2 => pow10(r.below(40)),
                _ => (BigInt::one() << (r.below(64) as usize)) + r.range(0, 3),
            };
            Dec::new(n, r.range(-3, 6))
        }
        1 => gen::dec_nonzero(r, 30, 40),
        _ => gen::dec_nonzero(r, if i % 10 == 0 { 600 } else { 120 }, 300),
    };
    let bn = b.n.abs();
    let q = match r.below(8) { 0 => 0, 1 | 2 | 3 => 1, 4 => 2, 5 => r.range(3, 10), 6 => r.range(10, 1000), _ => r.range(1, 3) };
    // how much finer the dividend is: the whole stated range, long gaps favoured
    let db = gen::ndigits(&bn) as i64;
    let gmax = (1999 - db - 3).max(1);
    let g = match r.below(4) { 0 => gen::gap(r, gmax), 1 => r.range(gmax / 2, gmax), _ => r.range(0, gmax) };
    let unit = &bn * pow10(g as u64); // |b| in units of the dividend's last place
    let tail = match r.below(6) {
        0 => BigInt::zero(),
        1 => BigInt::from(r.range(1, 99)),
        2 => &unit - r.range(1, 99),
        3 => {
            // a short tail: many zeros after the quotient digits
            let l = 1 + r.below((g as u64).max(1)) as usize;
            gen::uint_nonzero(r, l.min(1990))
        }
        _ => {
            let l = (db + g) as usize;
            gen::digit_string(r, l.max(1)).parse::<BigInt>().unwrap()
        }
    };
    let tail = if unit.is_zero() { BigInt::zero() } else { tail % &unit };
    let tail = if tail.is_negative() { -tail } else { tail };
    let mut an = &unit * q + tail;
    if r.bool() { an = -an; }
    let a = Dec::new(an, b.s + g);
    let b = if r.chance(1, 3) { b.neg() } else { b };
    if r.chance(1, 8) {
        // the mirror image: the divisor is the finer operand (the dividend gets the short spelling)
        return (b.clone(), if a.is_zero() { Dec::new(BigInt::one(), a.s) } else { a });
    }
    (a, b)
}

fn gen_pair(r: &mut Rng, i: u64) -> (Dec, Dec) {
    let lm = if i % 50 == 0 { 2000 } else if i % 5 == 0 { 200 } else { 30 };
    let a = gen::dec(r, lm, 3000);
    let mut b = match r.below(8) {
        0 => {
            // a = k * b: divide a's digits? build b first instead
            let b = gen::dec_nonzero(r, lm.min(200), 300);
            let k = gen::int_any(r, 20, 10);
            let j = r.range(0, 25);
            return (Dec::new(&b.n * k * pow10(j as u64), b.s + j), b);
        }
        1 => {
            // same digits and sign, other scale (|a| < |b| or > |b|)
            Dec::new(a.n.clone(), a.s + if r.bool() { r.range(1, 40) } else { -r.range(1, 40) })
        }
        2 => {
            // explicit gap with unrelated digits
            let g = gen::gap(r, 10_000);
            Dec::new(gen::int_nonzero(r, lm), if r.bool() { a.s + g } else { a.s - g })
        }
        3 => {
            // tiny divisor far below / huge divisor far above
            let g = gen::gap(r, 3000);
            Dec::new(BigInt::from(r.range(1, 99)), if r.bool() { a.s + g } else { a.s - g })
        }
        _ => gen::partner(r, &a, lm, 3000, 3000),
    };
    if b.is_zero() {
        b = Dec::new(BigInt::one(), b.s.clamp(-3000, 3000));
    }
    if r.chance(1, 3) { b = b.neg(); }
    (a, b)
}

fn run_unit(unit: &Unit, r: &mut Rng, ctx: &mut Ctx) {
    match unit.kind {
        "pairs" => {
            for i in 0..unit.count {
                let (a, b) = gen_pair(r, unit.start + i);
                let case = Case::new("pair").push(a.tok()).push(b.tok());
                check_case(&case, ctx);
            }
        }
        "small" => {
            // exhaustive: a = na*10^-sa, b = nb*10^-sb with |na| <= 150, 1 <= |nb| <= 60, sa, sb in 0..=2
            for idx in unit.start..unit.start + unit.count {
                let na = idx as i64 - 150;
                for nb in (-60i64..=60).filter(|x| *x != 0) {
                    for sa in 0i64..=2 {
                        for sb in 0i64..=2 {
                            let case = Case::new("pair").push(Dec::new(BigInt::from(na), sa).tok()).push(Dec::new(BigInt::from(nb), sb).tok());
                            check_case(&case, ctx);
                        }
                    }
                }
            }
            if unit.start == 0 {
                ctx.exhaustive_notes.push("C09 small scope: every a = na*10^-sa, b = nb*10^-sb with |na| <= 150, 1 <= |nb| <= 60, scales 0..2 (325 080 pairs x 10 remainder calls)".into());
            }
        }
        "quot" => {
            for i in 0..unit.count {
                let (a, b) = gen_quot(r, unit.start + i);
                if b.is_zero() { continue; }
                let case = Case::new("pair").push(a.tok()).push(b.tok());
                check_case(&case, ctx);
            }
        }
        "words" => {
            // exhaustive: aligned integers (x, y) with x in {+-(2^k + d)} for the word boundaries k, d in -1..=1, and
            // y in {+-1, +-2, +-3, +-7, +-10} and {+-(2^j + e)}; at equal scales, and with x spelt one digit coarser
            for idx in unit.start..unit.start + unit.count {
                let k = WORDS[(idx / 6) as usize % WORDS.len()];
                let d = (idx % 3) as i64 - 1;
                let neg = (idx / 3) % 2 == 1;
                let x = word(k, d, neg);
                let mut ys: Vec<BigInt> = vec![];
                for v in [1i64, 2, 3, 7, 10] { ys.push(BigInt::from(v)); ys.push(BigInt::from(-v)); }
                for j in WORDS { for e in -1i64..=1 { ys.push(word(j, e, false)); ys.push(word(j, e, true)); } }
                for y in &ys {
                    for (sa, sb) in [(0i64, 0i64), (3, 3), (-2, -2), (18, 18)] {
                        for (a, b) in [(Dec::new(x.clone(), sa), Dec::new(y.clone(), sb)), (Dec::new(y.clone(), sb), Dec::new(x.clone(), sa))] {
                            let case = Case::new("pair").push(a.tok()).push(b.tok());
                            check_case(&case, ctx);
                        }
                    }
                    // the same aligned pair reached through alignment: y spelt with one trailing zero less
                    let case = Case::new("pair").push(Dec::new(&x * 10, 4).tok()).push(Dec::new(y.clone(), 3).tok());
                    check_case(&case, ctx);
                    let case = Case::new("pair").push(Dec::new(x.clone(), 3).tok()).push(Dec::new(y * 10, 4).tok());
                    check_case(&case, ctx);
                }
            }
            if unit.start == 0 {
                ctx.exhaustive_notes.push("C09 word boundaries: every aligned pair (x, y), x = +-(2^k + d), y in {+-1, +-2, +-3, +-7, +-10} or +-(2^j + e), k, j in {7,8,15,16,31,32,52,53,63,64,96,127,128,192}, d, e in -1..=1, both orders, 4 common scales and 2 aligned spellings".into());
            }
        }
        "zero" => {
            for _ in 0..unit.count {
                let a = match r.below(4) {
                    0 => Dec::new(BigInt::zero(), r.range(-50, 50)),
                    1 => Dec::new(BigInt::from(r.range(-9, 9)), r.range(-5, 60)),
                    _ => gen::dec(r, 40, 100),
                };
                let zs = match r.below(4) { 0 => 0, 1 => a.s + r.range(-70, 70), 2 => a.s - r.range(0, 3000), _ => r.range(-3000, 3000) };
                let case = Case::new("zero").push(a.tok()).push(zs);
                check_case(&case, ctx);
            }
        }
        _ => {}
    }
}

fn replay(case: &Case, ctx: &mut Ctx) {
    check_case(case, ctx);
}

fn forms(ctx: &mut Ctx, a: &BigDecimal, b: &BigDecimal) -> Vec<(&'static str, Result<BigDecimal, String>)> {
    vec![
        ("BigDecimal % BigDecimal", ctx.guard(|| a.clone() % b.clone())),
        ("BigDecimal % &BigDecimal", ctx.guard(|| a.clone() % b)),
        ("&BigDecimal % BigDecimal", ctx.guard(|| a % b.clone())),
        ("&BigDecimal % &BigDecimal", ctx.guard(|| a % b)),
        ("BigDecimal %= &BigDecimal", ctx.guard(|| { let mut x = a.clone(); x %= b; x })),
    ]
}

pub fn check_case(case: &Case, ctx: &mut Ctx) {
    match case.kind() {
        "pair" => {
            let (ad, bd) = match (Dec::from_tok(case.arg(0)), Dec::from_tok(case.arg(1))) { (Some(a), Some(b)) if !b.is_zero() => (a, b), _ => return };
            ctx.begin_case(case);
            let (a, b) = (ad.bd(), bd.bd());
            let want = model::rem(&ad, &bd);
            // model-side sanity of the identity a = b*trunc(a/b) + r (guards the oracle itself)
            {
                let (x, y, _s) = model::align(&ad, &bd);
                let q = &x / &y; // truncated
                assert!(&y * &q + &want.n == x, "model self-check: truncated-division identity");
                assert!(want.n.abs() < y.abs());
            }
            let nb = bd.neg().bd();
            for (name, r) in forms(ctx, &a, &b) {
                match r {
                    Err(p) => ctx.fail("rem/panic", case, format!("`{}` panicked: {}", name, p)),
                    Ok(v) => {
                        ctx.out_bd(&v);
                        let g = Dec::of(&v);
                        let held = ctx.check(model::eq_dec(&g, &want), "rem/wrong-value", case, || format!("`{}`: {} % {} = {} want {}", name, ad.tok(), bd.tok(), g.tok(), want.tok()));
                        if name == "&BigDecimal % &BigDecimal" && ctx.want_event() && case.arg(0).len() + case.arg(1).len() < 600 && (ad.s as i128 - bd.s as i128).abs() < 1500 {
                            ctx.log("rem", &[ad.tok(), bd.tok()], serde_json::json!({}), g.tok(), held);
                        }
                        // the clauses, decided independently of the expected value
                        let absr = Dec::new(g.n.abs(), g.s);
                        let absb = Dec::new(bd.n.abs(), bd.s);
                        ctx.check(model::cmp_dec(&absr, &absb) == Ordering::Less, "rem/magnitude-not-below-divisor", case, || format!("`{}`: |{}| is not below |{}|", name, g.tok(), bd.tok()));
                        ctx.check(g.n.is_zero() || g.n.is_negative() == ad.n.is_negative(), "rem/wrong-sign", case, || format!("`{}`: {} % {} = {} does not carry the sign of the dividend", name, ad.tok(), bd.tok(), g.tok()));
                    }
                }
            }
            // unaffected by the sign of b
            for (name, r) in forms(ctx, &a, &nb) {
                match r {
                    Err(p) => ctx.fail("rem/panic", case, format!("`{}` with negated divisor panicked: {}", name, p)),
                    Ok(v) => {
                        let g = Dec::of(&v);
                        ctx.check(model::eq_dec(&g, &want), "rem/depends-on-divisor-sign", case, || format!("`{}`: {} % {} = {} but with the divisor negated the model remainder {} is expected", name, ad.tok(), bd.neg().tok(), g.tok(), want.tok()));
                    }
                }
            }
            let nontrivial = !ad.is_zero() && !want.n.is_zero();
            ctx.end_case(case.hash(), nontrivial);
            if ctx.want_sample() && nontrivial {
                ctx.sample(case, format!("remainder {} in all five forms, also with the divisor negated", crate::monitor::abbreviate(&want.tok(), 120)));
            }
        }
        "zero" => {
            let ad = match Dec::from_tok(case.arg(0)) { Some(a) => a, None => return };
            let zs: i64 = case.arg(1).parse().unwrap_or(0);
            ctx.begin_case(case);
            let a = ad.bd();
            let z = BigDecimal::new(BigInt::zero(), zs);
            let mut bad = vec![];
            for (name, r) in forms(ctx, &a, &z) {
                if let Ok(v) = r {
                    bad.push(format!("`{}` returned {}", name, Dec::of(&v).tok()));
                }
            }
            ctx.out_u64(bad.len() as u64);
            ctx.check(bad.is_empty(), "rem/zero-divisor-did-not-panic", case, || format!("{} % (zero with scale {}): {}", ad.tok(), zs, bad.join("; ")));
            ctx.end_case(case.hash(), true);
        }
        _ => {}
    }
    let _ = pow10(0);
}

//! C03 — Hash agrees with equality

use crate::gen::{self, pow10, Dec, Rng};
use crate::model;
use crate::monitor::{Case, Ctx};
use crate::util::{Fnv, RecordingHasher, Sip13};
use crate::{PropDef, Tier, Unit};
use bigdecimal::BigDecimal;
use num_bigint::BigInt;
use num_traits::Zero;
use std::collections::hash_map::DefaultHasher;
use std::collections::HashSet;
use std::hash::{BuildHasherDefault, Hash, Hasher};

pub fn def() -> PropDef {
    PropDef {
        id: "C03",
        plan,
        run_unit,
        replay,
        required_probes: &["Hash_Zero", "Hash_Trim", "Hash_AppendZeros", "Hash_Plain"],
        rule: "sets of value-equal representations of one decimal: k extra trailing zeros (k in 0..40, k beyond the scale, k up to 2000), the normalized form, negative scale versus written-out zeros, zero at scales -10^5..10^5 and zeros produced by x-x and 0*(-y); each member is hashed into a recording hasher (exact byte stream and write-call boundaries), DefaultHasher, FNV-1a, SipHash-1-3 and a chunk-sensitive word hasher, and all members of a set must agree on all five; HashSet round trips; unequal +-1 neighbours measure that the hash is not constant. distinct = distinct sets; non-trivial = set holds >= 2 different representations of a non-zero value (zero sets are counted when they hold >= 2 scales)",
    }
}

fn plan(tier: Tier) -> Vec<Unit> {
    match tier {
        Tier::Quick => {
            let mut v = crate::util::split_budget("sets", 48_000, 500);
            v.extend(crate::util::split_budget("zeros", 8_000, 200));
            v.extend(crate::util::split_budget("hashset", 2_000, 50));
            v
        }
        Tier::Thorough => {
            let mut v = crate::util::split_budget("sets", 1_500_000, 5_000);
            v.extend(crate::util::split_budget("zeros", 60_000, 500));
            v.extend(crate::util::split_budget("hashset", 20_000, 200));
            v
        }
        Tier::Miri => {
            let mut v = crate::util::split_budget("sets", 8, 4);
            v.extend(crate::util::split_budget("zeros", 4, 2));
            v.extend(crate::util::split_budget("hashset", 2, 1));
            v
        }
    }
}

/// A hasher whose result depends on how the input is chunked into write calls (like FxHash)
#[derive(Default)]
struct ChunkHasher(u64);
impl Hasher for ChunkHasher {
    fn finish(&self) -> u64 { self.0 }
    fn write(&mut self, bytes: &[u8]) {
        for chunk in bytes.chunks(8) {
            let mut w = [0u8; 8];
            w[..chunk.len()].copy_from_slice(chunk);
            self.0 = (self.0.rotate_left(5) ^ u64::from_le_bytes(w)).wrapping_mul(0x517cc1b727220a95);
        }
    }
}

#[derive(PartialEq, Eq, Debug, Clone)]
struct Fingerprint {
    rec: RecordingHasher,
    default: u64,
    fnv: u64,
    sip: u64,
    chunk: u64,
}

fn fingerprint(d: &BigDecimal) -> Fingerprint {
    let mut rec = RecordingHasher::default();
    d.hash(&mut rec);
    let mut dh = DefaultHasher::new();
    d.hash(&mut dh);
    let mut f = Fnv::default();
    d.hash(&mut f);
    let mut s = Sip13::new(0x0706050403020100, 0x0f0e0d0c0b0a0908);
    d.hash(&mut s);
    let mut c = ChunkHasher::default();
    d.hash(&mut c);
    Fingerprint { rec, default: dh.finish(), fnv: f.finish(), sip: s.finish(), chunk: c.finish() }
}

fn strip_zeros(d: &Dec, k: usize) -> Option<Dec> {
    let txt = d.n.to_string();
    if d.n.is_zero() || txt.len() <= k || !txt.ends_with(&"0".repeat(k)) {
        return None;
    }
    let n: BigInt = txt[..txt.len() - k].parse().ok()?;
    Some(Dec::new(n, d.s - k as i64))
}

fn gen_set(r: &mut Rng, lmax: usize) -> Vec<Dec> {
    let mut base = gen::dec_nonzero(r, lmax, 300);
    if r.chance(1, 3) {
        // digits with trailing zeros, so that negative-scale and stripped forms exist
        let z = r.below(30);
        base = Dec::new(&base.n * pow10(z), base.s + r.range(-20, 20));
    }
    if r.chance(1, 8) && !cfg!(miri) {
        base.s = r.range(-3000, 3000);
    }
    if r.chance(1, 200) && !cfg!(miri) {
        base.s = r.range(-100_000, 100_000);
        base.n = BigInt::from(r.range(1, 999));
    }
    let mut set = vec![base.clone()];
    if !cfg!(miri) && r.chance(1, 160) {
        // negative scales around 2^15 / 2^16 / 10^5, with representations on both sides of the boundary
        let b = *r.pick(&[32_768i64, 65_536, 65_535, 65_537, 70_000, 99_990]);
        base.s = -(b + r.range(-3, 3));
        base.n = BigInt::from(r.range(1, 99_999));
        set = vec![base.clone()];
        for k in [r.range(1, 10), r.range(1, 4000), (b - 60_000).max(1)] {
            set.push(Dec::new(&base.n * pow10(k as u64), base.s + k));
        }
        set.push(Dec::new(&base.n * pow10((-base.s) as u64), 0));
        return set;
    }
    let n = 2 + r.below(4);
    for _ in 0..n {
        let k = match r.below(5) {
            0 => r.below(41),
            1 => (base.s.max(0) as u64) + r.below(5),
            2 => r.below(4),
            3 => if cfg!(miri) { r.below(60) } else { r.below(2000) },
            _ => r.below(100),
        };
        set.push(Dec::new(&base.n * pow10(k), base.s + k as i64));
    }
    set.push(model::normalize(&base));
    let k = r.below(6) as usize;
    if let Some(s) = strip_zeros(&base, k) {
        set.push(s);
    }
    // written-out zeros for a negative scale
    if base.s < 0 && base.s > -3000 {
        set.push(Dec::new(&base.n * pow10((-base.s) as u64), 0));
    }
    set
}

fn run_unit(unit: &Unit, r: &mut Rng, ctx: &mut Ctx) {
    match unit.kind {
        "sets" => {
            for i in 0..unit.count {
                let lmax = if i % 40 == 0 { 400 } else { 40 };
                let set = gen_set(r, lmax);
                let mut case = Case::new("equal-set");
                for d in &set { case = case.push(d.tok()); }
                // an unequal neighbour for the collision statistic
                let nb = Dec::new(&set[0].n + 1u8, set[0].s);
                case = case.push(format!("neighbour:{}", nb.tok()));
                check_case(&case, ctx);
            }
        }
        "zeros" => {
            for _ in 0..unit.count {
                let mut case = Case::new("zero-set");
                let n = 2 + r.below(5);
                for _ in 0..n {
                    let s = match r.below(4) { 0 => r.range(-100_000, 100_000), 1 => r.range(-20, 20), 2 => 0, _ => r.range(-2000, 2000) };
                    case = case.push(Dec::new(BigInt::zero(), s).tok());
                }
                // operands used to build zeros by arithmetic
                let x = gen::dec_nonzero(r, 30, 50);
                case = case.push(format!("via:{}", x.tok()));
                check_case(&case, ctx);
            }
        }
        "hashset" => {
            for _ in 0..unit.count {
                let mut case = Case::new("hashset");
                let nvals = 2 + r.below(6);
                for _ in 0..nvals {
                    let set = gen_set(r, 30);
                    let reps: Vec<String> = set.iter().map(|d| d.tok()).collect();
                    case = case.push(reps.join("|"));
                }
                check_case(&case, ctx);
            }
        }
        _ => {}
    }
}

fn replay(case: &Case, ctx: &mut Ctx) {
    check_case(case, ctx);
}

fn hash_all(ctx: &mut Ctx, case: &Case, ds: &[Dec]) -> Option<Vec<Fingerprint>> {
    let mut out = vec![];
    for d in ds {
        let b = d.bd();
        match ctx.guard(|| fingerprint(&b)) {
            Ok(f) => {
                ctx.more_evals(4);
                ctx.out_u64(f.fnv);
                out.push(f);
            }
            Err(p) => {
                ctx.fail("hash/panic", case, format!("hashing {} panicked: {}", d.tok(), p));
                return None;
            }
        }
    }
    Some(out)
}

fn judge_equal_set(ctx: &mut Ctx, case: &Case, ds: &[Dec]) {
    // the oracle for "equal" is the model, not the crate
    for d in &ds[1..] {
        if !model::eq_dec(&ds[0], d) {
            ctx.note("harness-skipped-unequal-set");
            return;
        }
    }
    if let Some(fps) = hash_all(ctx, case, ds) {
        for (i, f) in fps.iter().enumerate().skip(1) {
            let ok_bytes = f.rec.bytes == fps[0].rec.bytes;
            let ok_writes = f.rec.writes == fps[0].rec.writes;
            ctx.check(ok_bytes, "hash/bytes-differ", case, || format!(
                "equal decimals {} and {} feed different bytes: {:?} vs {:?}", ds[0].tok(), ds[i].tok(),
                String::from_utf8_lossy(&fps[0].rec.bytes).chars().take(80).collect::<String>(),
                String::from_utf8_lossy(&f.rec.bytes).chars().take(80).collect::<String>()));
            if ok_bytes {
                ctx.check(ok_writes, "hash/write-chunking-differs", case, || format!(
                    "equal decimals {} and {} feed the same bytes in different write calls: {:?} vs {:?}", ds[0].tok(), ds[i].tok(),
                    &fps[0].rec.writes[..fps[0].rec.writes.len().min(12)], &f.rec.writes[..f.rec.writes.len().min(12)]));
            }
            ctx.check(f.default == fps[0].default && f.fnv == fps[0].fnv && f.sip == fps[0].sip && f.chunk == fps[0].chunk,
                "hash/output-differs", case, || format!("equal decimals {} and {} hash differently (default/fnv/sip/chunk)", ds[0].tok(), ds[i].tok()));
        }
        // and the crate agrees they are equal (ties C03 to what HashMap users see)
        let b0 = ds[0].bd();
        for d in &ds[1..] {
            let b = d.bd();
            if let Ok(eq) = ctx.guard(|| b0 == b) {
                ctx.check(eq, "hash/eq-disagrees-with-model", case, || format!("{} == {} is false", ds[0].tok(), d.tok()));
            }
        }
    }
}

pub fn check_case(case: &Case, ctx: &mut Ctx) {
    ctx.begin_case(case);
    match case.kind() {
        "equal-set" => {
            let mut ds = vec![];
            let mut neighbour = None;
            for t in &case.toks[1..] {
                if let Some(n) = t.strip_prefix("neighbour:") {
                    neighbour = Dec::from_tok(n);
                } else if let Some(d) = Dec::from_tok(t) {
                    ds.push(d);
                }
            }
            if ds.is_empty() { return; }
            judge_equal_set(ctx, case, &ds);
            if let Some(nb) = neighbour {
                if let Some(f) = hash_all(ctx, case, &[ds[0].clone(), nb]) {
                    if f[0].default == f[1].default { ctx.note("neighbour-collisions-defaulthasher"); }
                    ctx.note("neighbour-pairs");
                }
            }
            let mut reps: Vec<String> = ds.iter().map(|d| d.tok()).collect();
            reps.sort();
            reps.dedup();
            let nontrivial = reps.len() >= 2;
            ctx.end_case(case.hash(), nontrivial);
            if ctx.want_sample() && nontrivial {
                let b = ds[0].bd();
                let f = fingerprint(&b);
                ctx.sample(case, format!("{} representations, all feed bytes {:?} in writes {:?}", reps.len(),
                    String::from_utf8_lossy(&f.rec.bytes).chars().take(60).collect::<String>(), f.rec.writes));
            }
        }
        "zero-set" => {
            let mut ds = vec![];
            let mut via = None;
            for t in &case.toks[1..] {
                if let Some(n) = t.strip_prefix("via:") { via = Dec::from_tok(n); } else if let Some(d) = Dec::from_tok(t) { ds.push(d); }
            }
            if let Some(x) = via {
                // zeros built by arithmetic
                let xb = x.bd();
                if let Ok((z1, z2, z3)) = ctx.guard(|| (xb.clone() - &xb, BigDecimal::new(BigInt::from(0) * -1, x.s), BigDecimal::from(0) * xb.clone())) {
                    for z in [z1, z2, z3] {
                        let d = Dec::of(&z);
                        if d.is_zero() { ds.push(d); }
                    }
                }
            }
            if ds.is_empty() { return; }
            judge_equal_set(ctx, case, &ds);
            let mut scales: Vec<i64> = ds.iter().map(|d| d.s).collect();
            scales.sort();
            scales.dedup();
            ctx.end_case(case.hash(), scales.len() >= 2);
        }
        "hashset" => {
            // end-to-end: all representations inserted, set size = number of distinct values
            let groups: Vec<Vec<Dec>> = case.toks[1..].iter().map(|g| g.split('|').filter_map(Dec::from_tok).collect()).collect();
            let mut distinct_vals: Vec<Dec> = vec![];
            for g in &groups {
                for d in g {
                    if !distinct_vals.iter().any(|v| model::eq_dec(v, d)) { distinct_vals.push(d.clone()); }
                }
            }
            let all: Vec<BigDecimal> = groups.iter().flatten().map(|d| d.bd()).collect();
            let r = ctx.guard(|| {
                let s1: HashSet<BigDecimal> = all.iter().cloned().collect();
                let s2: HashSet<BigDecimal, BuildHasherDefault<ChunkHasher>> = all.iter().cloned().collect();
                let s3: HashSet<BigDecimal, BuildHasherDefault<Fnv>> = all.iter().cloned().collect();
                let found = all.iter().all(|d| s1.contains(d) && s2.contains(d) && s3.contains(d));
                (s1.len(), s2.len(), s3.len(), found)
            });
            ctx.more_evals(all.len() as u64 * 6);
            match r {
                Err(p) => ctx.fail("hash/panic", case, format!("HashSet round trip panicked: {}", p)),
                Ok((l1, l2, l3, found)) => {
                    ctx.out_u64(l1 as u64);
                    let want = distinct_vals.len();
                    ctx.check(l1 == want && l2 == want && l3 == want && found, "hashset/size", case, || format!(
                        "HashSet of {} representations of {} distinct values has sizes {}/{}/{} (RandomState / chunk-sensitive / FNV), all found = {}", all.len(), want, l1, l2, l3, found));
                }
            }
            ctx.end_case(case.hash(), true);
        }
        _ => {}
    }
}

//! bdverif — runtime monitors for bigdecimal-rs properties C01..C20.
//!
//!   bdverif run <PROP> --tier quick|thorough|miri --seed N --out result.json
//!               [--threads N] [--events file.jsonl] [--event-budget N] [--dump-unit U --dump-out file]
//!               [--cfg k=v ...]   (C20: the intended configuration)
//!   bdverif replay <replay.json>
//!   bdverif selfcheck
//!
//! Exit codes of `run`: 0 = ran to completion (violations are in the result file),
//! 3 = harness error.  The driver (/verif/check) turns results into verdicts.

mod gen;
mod model;
mod monitor;
mod noise;
mod props;
mod util;

use gen::Rng;
use monitor::{Case, Ctx, Merged, UnitResult};
use std::sync::atomic::{AtomicUsize, Ordering};
use std::sync::{Arc, Mutex};
use std::time::Instant;

#[derive(Clone, Copy, Debug, PartialEq, Eq)]
pub enum Tier {
    Quick,
    Thorough,
    Miri,
}

#[derive(Clone, Debug)]
pub struct Unit {
    pub kind: &'static str,
    pub start: u64,
    pub count: u64,
    /// workload parameter (meaning depends on the kind)
    pub param: i64,
}

pub struct PropDef {
    pub id: &'static str,
    pub plan: fn(Tier) -> Vec<Unit>,
    pub run_unit: fn(&Unit, &mut Rng, &mut Ctx),
    pub replay: fn(&Case, &mut Ctx),
    pub required_probes: &'static [&'static str],
    /// how cases are generated and what makes one distinct / non-trivial (goes into the evidence)
    pub rule: &'static str,
}

/// extra key=value parameters (used by C20 for the intended configuration)
pub static PARAMS: Mutex<Vec<(String, String)>> = Mutex::new(Vec::new());

pub fn param(key: &str) -> Option<String> {
    PARAMS.lock().unwrap().iter().find(|(k, _)| k == key).map(|(_, v)| v.clone())
}

fn usage() -> ! {
    eprintln!("usage: bdverif run <PROP> --tier quick|thorough|miri --seed N --out FILE [--threads N] [--events FILE] | replay FILE | selfcheck");
    std::process::exit(3);
}

fn main() {
    let args: Vec<String> = std::env::args().collect();
    if args.len() < 2 {
        usage();
    }
    monitor::install_panic_hook();
    match args[1].as_str() {
        "selfcheck" => match model::self_check() {
            Ok(()) => println!("model self-check ok"),
            Err(e) => {
                eprintln!("{}", e);
                std::process::exit(3);
            }
        },
        "run" => run(&args[2..]),
        "replay" => replay(&args[2..]),
        "list" => {
            for p in props::all() {
                println!("{}", p.id);
            }
        }
        _ => usage(),
    }
}

fn find_prop(id: &str) -> PropDef {
    props::all().into_iter().find(|p| p.id == id).unwrap_or_else(|| {
        eprintln!("unknown property {}", id);
        std::process::exit(3);
    })
}

fn run(args: &[String]) {
    if args.is_empty() {
        usage();
    }
    let prop = find_prop(&args[0]);
    let mut tier = Tier::Quick;
    let mut seed: u64 = 1;
    let mut out: Option<String> = None;
    let mut threads: usize = std::thread::available_parallelism().map(|n| n.get()).unwrap_or(4);
    let mut events: Option<String> = None;
    let mut event_budget: usize = 0;
    let mut dump_unit: Option<usize> = None;
    let mut dump_out: Option<String> = None;
    let mut profile = String::from("rel");
    let mut i = 1;
    while i < args.len() {
        let a = args[i].as_str();
        let v = args.get(i + 1).cloned();
        match a {
            "--tier" => {
                tier = match v.as_deref() {
                    Some("quick") => Tier::Quick,
                    Some("thorough") => Tier::Thorough,
                    Some("miri") => Tier::Miri,
                    _ => usage(),
                };
                i += 2;
            }
            "--seed" => { seed = v.and_then(|s| s.parse().ok()).unwrap_or_else(|| usage()); i += 2; }
            "--out" => { out = v; i += 2; }
            "--threads" => { threads = v.and_then(|s| s.parse().ok()).unwrap_or_else(|| usage()); i += 2; }
            "--events" => { events = v; i += 2; }
            "--event-budget" => { event_budget = v.and_then(|s| s.parse().ok()).unwrap_or_else(|| usage()); i += 2; }
            "--dump-unit" => { dump_unit = v.and_then(|s| s.parse().ok()); i += 2; }
            "--dump-out" => { dump_out = v; i += 2; }
            "--profile" => { profile = v.unwrap_or_else(|| usage()); i += 2; }
            "--journal" => { monitor::open_journal(&v.unwrap_or_else(|| usage())); i += 2; }
            "--cfg" => {
                let kv = v.unwrap_or_else(|| usage());
                let (k, val) = kv.split_once('=').unwrap_or_else(|| usage());
                PARAMS.lock().unwrap().push((k.to_string(), val.to_string()));
                i += 2;
            }
            _ => usage(),
        }
    }
    // (under Miri the self-check alone takes minutes; the Miri lane only adds UB detection to runs
    // whose oracles were already self-checked natively)
    if tier != Tier::Miri {
        if let Err(e) = model::self_check() {
            eprintln!("HARNESS-ERROR {}", e);
            std::process::exit(3);
        }
    }
    let units = (prop.plan)(tier);
    let t0 = Instant::now();
    let stream = gen::hash64(prop.id.as_bytes());

    if let Some(u) = dump_unit {
        // re-run one unit single-threaded, recording every output line
        let mut ctx = Ctx::new(prop.id);
        ctx.dump = Some(Vec::new());
        let unit = units.get(u).unwrap_or_else(|| { eprintln!("no such unit"); std::process::exit(3) });
        let mut rng = Rng::new(seed, stream, u as u64);
        (prop.run_unit)(unit, &mut rng, &mut ctx);
        let lines = ctx.dump.take().unwrap();
        std::fs::write(dump_out.unwrap_or_else(|| usage()), lines.join("\n")).expect("write dump");
        return;
    }

    let next = Arc::new(AtomicUsize::new(0));
    let units = Arc::new(units);
    let merged = Arc::new(Mutex::new(Merged::new()));
    let nthreads = threads.max(1).min(units.len().max(1));
    let per_thread_events = if events.is_some() { (event_budget / nthreads).max(1) } else { 0 };
    let mut handles = vec![];
    for _ in 0..nthreads {
        let next = next.clone();
        let units = units.clone();
        let merged = merged.clone();
        let run_unit = prop.run_unit;
        let id = prop.id;
        let h = std::thread::Builder::new().stack_size(64 << 20).spawn(move || {
            let mut ctx = Ctx::new(id);
            ctx.event_budget = per_thread_events;
            let mut digests = vec![];
            loop {
                let u = next.fetch_add(1, Ordering::SeqCst);
                if u >= units.len() {
                    break;
                }
                ctx.out_digest = 0;
                let mut rng = Rng::new(seed, stream, u as u64);
                run_unit(&units[u], &mut rng, &mut ctx);
                digests.push(UnitResult { unit: u, digest: ctx.out_digest });
            }
            let hits = bigdecimal::verif_hooks::hits_snapshot();
            let loops = bigdecimal::verif_hooks::loop_max_snapshot();
            merged.lock().unwrap().absorb(ctx, hits, loops, digests);
        }).expect("spawn");
        handles.push(h);
    }
    let mut harness_error = false;
    for h in handles {
        if h.join().is_err() {
            harness_error = true;
        }
    }
    let wall = t0.elapsed().as_secs_f64();
    let merged = merged.lock().unwrap();
    let tier_s = match tier { Tier::Quick => "quick", Tier::Thorough => "thorough", Tier::Miri => "miri" };
    let mut j = merged.to_json(prop.id, tier_s, seed, &profile, wall, prop.required_probes);
    j["units"] = serde_json::json!(units.len());
    j["rule"] = serde_json::json!(prop.rule);
    j["harness_error"] = serde_json::json!(harness_error);
    if let Some(path) = &events {
        let mut s = merged.events.join("\n");
        s.push('\n');
        std::fs::write(path, s).expect("write events");
        j["events_logged"] = serde_json::json!(merged.events.len());
    }
    let text = serde_json::to_string_pretty(&j).unwrap();
    match out {
        Some(p) => std::fs::write(p, text).expect("write result"),
        None => println!("{}", text),
    }
    if harness_error {
        eprintln!("HARNESS-ERROR a worker thread panicked outside a guard");
        std::process::exit(3);
    }
}

fn replay(args: &[String]) {
    let path = args.get(0).unwrap_or_else(|| usage());
    let text = std::fs::read_to_string(path).unwrap_or_else(|e| { eprintln!("cannot read {}: {}", path, e); std::process::exit(3) });
    let v: serde_json::Value = serde_json::from_str(&text).unwrap_or_else(|e| { eprintln!("bad replay file: {}", e); std::process::exit(3) });
    let id = v["property"].as_str().unwrap_or_else(|| usage()).to_string();
    let toks: Vec<String> = v["case"].as_array().unwrap_or_else(|| usage()).iter().map(|t| t.as_str().unwrap_or("").to_string()).collect();
    if let Some(cfg) = v["cfg"].as_object() {
        for (k, val) in cfg {
            PARAMS.lock().unwrap().push((k.clone(), val.as_str().unwrap_or("").to_string()));
        }
    }
    let prop = find_prop(&id);
    let mut ctx = Ctx::new(prop.id);
    ctx.sample_budget = 1;
    let case = Case { toks };
    (prop.replay)(&case, &mut ctx);
    for e in &ctx.events {
        println!("EVENT {}", e);
    }
    if ctx.violations.is_empty() {
        println!("REPLAY property={} held ({} oracle decisions, {} calls)", id, ctx.held, ctx.evals);
    } else {
        for v in &ctx.violations {
            println!("REPLAY-VIOLATION property={} sig={} detail={}", id, v.sig, v.detail);
        }
        std::process::exit(1);
    }
}

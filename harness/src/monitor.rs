//! Per-thread monitor state: counters, verdicts, panic capture, output digests,
//! path-probe bookkeeping, samples.  One `Ctx` per worker thread, merged at the end,
//! so the monitor itself has no shared mutable state.

use crate::gen::hash64;
use bigdecimal::verif_hooks as hooks;
use serde_json::{json, Value};
use std::cell::RefCell;
use std::collections::{BTreeMap, HashMap, HashSet};
use std::panic::{catch_unwind, AssertUnwindSafe};

thread_local! {
    static LAST_PANIC: RefCell<Option<String>> = RefCell::new(None);
    static IN_GUARD: std::cell::Cell<u32> = std::cell::Cell::new(0);
}

/// Violation journal: every violation is appended (and flushed) to this file the moment it is found, so
/// that a later abort of the process (allocation failure, stack overflow) cannot lose it.
pub static JOURNAL: std::sync::Mutex<Option<std::fs::File>> = std::sync::Mutex::new(None);

pub fn open_journal(path: &str) {
    if let Ok(f) = std::fs::File::create(path) {
        *JOURNAL.lock().unwrap() = Some(f);
    }
}

fn journal(sig: &str, case: &Case, detail: &str) {
    use std::io::Write;
    if let Ok(mut g) = JOURNAL.lock() {
        if let Some(f) = g.as_mut() {
            let line = serde_json::json!({"sig": sig, "case": case.toks, "detail": detail}).to_string();
            let _ = writeln!(f, "{}", line);
            let _ = f.flush();
        }
    }
}

/// mark code that runs crate calls under catch_unwind outside of Ctx::guard (C19 programs)
pub fn enter_guard() { IN_GUARD.with(|g| g.set(g.get() + 1)); }
pub fn leave_guard() { IN_GUARD.with(|g| g.set(g.get().saturating_sub(1))); }

pub fn install_panic_hook() {
    std::panic::set_hook(Box::new(|info| {
        let loc = info.location().map(|l| format!("{}:{}", l.file(), l.line())).unwrap_or_default();
        let msg = if let Some(s) = info.payload().downcast_ref::<&str>() {
            s.to_string()
        } else if let Some(s) = info.payload().downcast_ref::<String>() {
            s.clone()
        } else {
            "<non-string panic>".to_string()
        };
        let mut msg: String = msg.chars().take(300).collect();
        msg.push_str(" @ ");
        msg.push_str(&loc);
        if IN_GUARD.with(|g| g.get()) == 0 {
            // a panic of the harness itself: report it (the driver maps this to INCONCLUSIVE)
            eprintln!("HARNESS-PANIC {}", msg);
        }
        LAST_PANIC.with(|p| *p.borrow_mut() = Some(msg));
    }));
}

/// A serialisable case: what is needed to re-run one monitored execution
#[derive(Clone, Debug, PartialEq, Eq)]
pub struct Case {
    pub toks: Vec<String>,
}

impl Case {
    pub fn new(kind: &str) -> Case { Case { toks: vec![kind.to_string()] } }
    pub fn kind(&self) -> &str { &self.toks[0] }
    pub fn push<T: ToString>(mut self, t: T) -> Case { self.toks.push(t.to_string()); self }
    pub fn arg(&self, i: usize) -> &str { self.toks.get(i + 1).map(|s| s.as_str()).unwrap_or("") }
    pub fn hash(&self) -> u64 {
        let mut h = 0xcbf29ce484222325u64;
        for t in &self.toks {
            h = h.wrapping_mul(0x100000001b3) ^ hash64(t.as_bytes());
        }
        h
    }
    /// abbreviated form for samples / logs
    pub fn brief(&self) -> Vec<String> {
        self.toks.iter().map(|t| abbreviate(t, 160)).collect()
    }
}

pub fn abbreviate(t: &str, max: usize) -> String {
    if t.len() <= max {
        t.to_string()
    } else {
        let head: String = t.chars().take(max / 2).collect();
        let tail: String = t.chars().rev().take(max / 4).collect::<Vec<_>>().into_iter().rev().collect();
        format!("{}...({} chars)...{}", head, t.chars().count(), tail)
    }
}

#[derive(Clone, Debug)]
pub struct Violation {
    pub sig: String,
    pub case: Case,
    pub detail: String,
}

pub struct Ctx {
    pub prop: &'static str,
    /// monitored library calls
    pub evals: u64,
    /// cases (one case may make many calls)
    pub cases: u64,
    /// oracle decisions that came out "held"
    pub held: u64,
    /// distinct non-trivial cases (64-bit hashes; capped, see `distinct_capped`)
    pub distinct: HashSet<u64>,
    pub distinct_capped: bool,
    /// count of distinct-by-construction enumerated non-trivial cases (exhaustive sub-spaces)
    pub enumerated_nontrivial: u64,
    pub violations: Vec<Violation>,
    pub violation_counts: BTreeMap<String, u64>,
    pub samples: Vec<Value>,
    /// digest of everything the crate returned in this unit, for the rel/chk comparison
    pub out_digest: u64,
    /// path signatures seen (distinct path words)
    pub paths: HashSet<u128>,
    pub panics_caught: u64,
    pub noise_ops: u64,
    pub exhaustive_notes: Vec<String>,
    pub notes: BTreeMap<String, u64>,
    /// event log (sampled) for the offline re-checker
    pub events: Vec<String>,
    pub event_budget: usize,
    pub sample_budget: usize,
    pub max_violations_kept: usize,
    /// dump mode (divergence localisation): every case and every output line is recorded
    pub dump: Option<Vec<String>>,
}

const DISTINCT_CAP: usize = 3_000_000;

impl Ctx {
    pub fn new(prop: &'static str) -> Ctx {
        Ctx {
            prop,
            evals: 0,
            cases: 0,
            held: 0,
            distinct: HashSet::new(),
            distinct_capped: false,
            enumerated_nontrivial: 0,
            violations: Vec::new(),
            violation_counts: BTreeMap::new(),
            samples: Vec::new(),
            out_digest: 0,
            paths: HashSet::new(),
            panics_caught: 0,
            noise_ops: 0,
            exhaustive_notes: Vec::new(),
            notes: BTreeMap::new(),
            events: Vec::new(),
            event_budget: 0,
            sample_budget: 4,
            max_violations_kept: 40,
            dump: None,
        }
    }

    /// Run a closure that calls into the crate; a panic is returned as Err(message @ location)
    pub fn guard<R>(&mut self, f: impl FnOnce() -> R) -> Result<R, String> {
        self.evals += 1;
        enter_guard();
        let res = catch_unwind(AssertUnwindSafe(f));
        leave_guard();
        match res {
            Ok(r) => Ok(r),
            Err(_) => {
                self.panics_caught += 1;
                Err(LAST_PANIC.with(|p| p.borrow_mut().take()).unwrap_or_else(|| "<panic>".into()))
            }
        }
    }

    /// count additional monitored calls made inside one guard
    pub fn more_evals(&mut self, n: u64) { self.evals += n; }

    pub fn note(&mut self, key: &str) { *self.notes.entry(key.to_string()).or_insert(0) += 1; }
    pub fn note_n(&mut self, key: &str, n: u64) { *self.notes.entry(key.to_string()).or_insert(0) += n; }

    /// feed crate output into the profile-comparison digest
    pub fn out(&mut self, s: &str) {
        if let Some(d) = self.dump.as_mut() {
            d.push(format!("OUT\t{}\t{}", self.cases, s));
        }
        self.out_digest = self.out_digest.wrapping_mul(0x100000001b3).wrapping_add(hash64(s.as_bytes()));
    }
    pub fn out_u64(&mut self, v: u64) {
        if let Some(d) = self.dump.as_mut() {
            d.push(format!("OUT\t{}\t{:x}", self.cases, v));
        }
        self.out_digest = self.out_digest.wrapping_mul(0x100000001b3).wrapping_add(v ^ 0x9E3779B97F4A7C15);
    }

    /// feed a decimal result (limbs + scale) into the digest without stringifying it
    pub fn out_bd(&mut self, d: &bigdecimal::BigDecimal) {
        if self.dump.is_some() {
            let (n, s) = d.as_bigint_and_exponent();
            let line = format!("{}e{}", n, -(s as i128));
            self.out(&line);
            return;
        }
        let (n, s) = d.as_bigint_and_scale();
        let mut h: u64 = match n.sign() { num_bigint::Sign::Minus => 3, num_bigint::Sign::NoSign => 5, num_bigint::Sign::Plus => 7 };
        for w in n.iter_u64_digits() {
            h = h.wrapping_mul(0x100000001b3) ^ w;
        }
        h = h.wrapping_mul(0x100000001b3) ^ (s as u64);
        self.out_digest = self.out_digest.wrapping_mul(0x100000001b3).wrapping_add(h);
    }

    /// Start a case: clears the path word
    pub fn begin_case(&mut self, case: &Case) {
        self.cases += 1;
        // history perturbation (see noise.rs): one case in sixteen is preceded by unrelated calls
        if !cfg!(miri) {
            let h = case.hash();
            if h % 16 == 0 {
                crate::noise::perturb(h >> 4);
                self.noise_ops += 1;
            }
        }
        if let Some(d) = self.dump.as_mut() {
            d.push(format!("CASE\t{}\t{}", self.cases, serde_json::to_string(&case.toks).unwrap()));
        }
        let _ = hooks::take_path();
    }

    /// End a case: records its path signature; `nontrivial` by the property's rule
    pub fn end_case(&mut self, case_hash: u64, nontrivial: bool) -> u128 {
        let path = hooks::take_path();
        if self.paths.len() < 200_000 {
            self.paths.insert(path);
        }
        if nontrivial {
            if self.distinct.len() < DISTINCT_CAP {
                self.distinct.insert(case_hash);
            } else {
                self.distinct_capped = true;
            }
        }
        path
    }

    pub fn ok(&mut self) { self.held += 1; }

    pub fn fail(&mut self, sig: &str, case: &Case, detail: String) {
        let sig = format!("{}/{}", self.prop, sig);
        *self.violation_counts.entry(sig.clone()).or_insert(0) += 1;
        let kept_for_sig = self.violations.iter().filter(|v| v.sig == sig).count();
        if kept_for_sig < 3 && self.violations.len() < self.max_violations_kept {
            journal(&sig, case, &abbreviate(&detail, 1500));
            self.violations.push(Violation { sig, case: case.clone(), detail: abbreviate(&detail, 1500) });
        }
    }

    /// oracle decision helper
    pub fn check(&mut self, cond: bool, sig: &str, case: &Case, detail: impl FnOnce() -> String) -> bool {
        if cond {
            self.held += 1;
        } else {
            self.fail(sig, case, detail());
        }
        cond
    }

    pub fn sample(&mut self, case: &Case, observed: String) {
        if self.samples.len() < self.sample_budget {
            self.samples.push(json!({"case": case.brief(), "observed": abbreviate(&observed, 400), "verdict": "held"}));
        }
    }

    pub fn want_sample(&self) -> bool { self.samples.len() < self.sample_budget }

    pub fn event(&mut self, line: impl FnOnce() -> String) {
        if self.events.len() < self.event_budget {
            let l = line();
            self.events.push(l);
        }
    }
    pub fn want_event(&self) -> bool { self.events.len() < self.event_budget }

    /// number of violations recorded so far (to derive a per-case verdict for the event log)
    pub fn total_violations(&self) -> u64 { self.violation_counts.values().sum() }

    /// log one judged call for the offline second opinion: inputs, parameters, output, in-process verdict
    pub fn log(&mut self, op: &str, ins: &[String], params: serde_json::Value, out: String, held: bool) {
        if self.events.len() < self.event_budget {
            self.events.push(serde_json::json!({"p": self.prop, "op": op, "in": ins, "ctx": params, "out": out, "held": held}).to_string());
        }
    }
}

/// Result of one unit, in a form that can be merged and serialised
pub struct UnitResult {
    pub unit: usize,
    pub digest: u64,
}

pub struct Merged {
    pub evals: u64,
    pub cases: u64,
    pub held: u64,
    pub distinct: HashSet<u64>,
    pub distinct_capped: bool,
    pub enumerated_nontrivial: u64,
    pub violations: Vec<Violation>,
    pub violation_counts: BTreeMap<String, u64>,
    pub samples: Vec<Value>,
    pub paths: HashSet<u128>,
    pub panics_caught: u64,
    pub exhaustive_notes: Vec<String>,
    pub notes: BTreeMap<String, u64>,
    pub events: Vec<String>,
    pub probe_hits: Vec<u64>,
    pub loop_max: Vec<u64>,
    pub unit_digests: HashMap<usize, u64>,
}

impl Merged {
    pub fn new() -> Merged {
        Merged {
            evals: 0, cases: 0, held: 0, distinct: HashSet::new(), distinct_capped: false, enumerated_nontrivial: 0,
            violations: vec![], violation_counts: BTreeMap::new(), samples: vec![], paths: HashSet::new(),
            panics_caught: 0, exhaustive_notes: vec![], notes: BTreeMap::new(), events: vec![],
            probe_hits: vec![0; hooks::PROBE_COUNT], loop_max: vec![0; hooks::LOOP_COUNT], unit_digests: HashMap::new(),
        }
    }
    pub fn absorb(&mut self, c: Ctx, probe_hits: Vec<u64>, loop_max: Vec<u64>, digests: Vec<UnitResult>) {
        self.evals += c.evals;
        self.cases += c.cases;
        self.held += c.held;
        for h in c.distinct { self.distinct.insert(h); }
        self.distinct_capped |= c.distinct_capped;
        self.enumerated_nontrivial += c.enumerated_nontrivial;
        for (k, v) in c.violation_counts { *self.violation_counts.entry(k).or_insert(0) += v; }
        for v in c.violations {
            let kept = self.violations.iter().filter(|x| x.sig == v.sig).count();
            if kept < 3 && self.violations.len() < 60 { self.violations.push(v); }
        }
        for s in c.samples { if self.samples.len() < 10 { self.samples.push(s); } }
        for p in c.paths { self.paths.insert(p); }
        self.panics_caught += c.panics_caught;
        if c.noise_ops > 0 { *self.notes.entry("history-perturbations".to_string()).or_insert(0) += c.noise_ops; }
        for n in c.exhaustive_notes { if !self.exhaustive_notes.contains(&n) { self.exhaustive_notes.push(n); } }
        for (k, v) in c.notes { *self.notes.entry(k).or_insert(0) += v; }
        self.events.extend(c.events);
        for (i, h) in probe_hits.iter().enumerate() { self.probe_hits[i] += h; }
        for (i, m) in loop_max.iter().enumerate() { if self.loop_max[i] < *m { self.loop_max[i] = *m; } }
        for d in digests { self.unit_digests.insert(d.unit, d.digest); }
    }

    pub fn to_json(&self, prop: &str, tier: &str, seed: u64, profile: &str, wall_s: f64, required_probes: &[&str]) -> Value {
        let mut probe_map = serde_json::Map::new();
        for (i, n) in hooks::PROBE_NAMES.iter().enumerate() {
            if self.probe_hits[i] > 0 { probe_map.insert(n.to_string(), json!(self.probe_hits[i])); }
        }
        let unreached: Vec<&str> = required_probes.iter().copied()
            .filter(|n| hooks::PROBE_NAMES.iter().position(|p| p == n).map(|i| self.probe_hits[i] == 0).unwrap_or(true))
            .collect();
        let mut loops = serde_json::Map::new();
        for (i, n) in hooks::LOOP_NAMES.iter().enumerate() {
            if self.loop_max[i] > 0 { loops.insert(n.to_string(), json!(self.loop_max[i])); }
        }
        let mut digests: Vec<(usize, u64)> = self.unit_digests.iter().map(|(a, b)| (*a, *b)).collect();
        digests.sort();
        json!({
            "property": prop, "tier": tier, "seed": seed, "profile": profile, "wall_s": wall_s,
            "evaluations": self.evals, "cases": self.cases, "held": self.held,
            "distinct_nontrivial": self.distinct.len() as u64 + self.enumerated_nontrivial,
            "distinct_capped": self.distinct_capped,
            "enumerated_nontrivial": self.enumerated_nontrivial,
            "panics_caught": self.panics_caught,
            "violation_counts": self.violation_counts,
            "violations": self.violations.iter().map(|v| json!({"sig": v.sig, "case": v.case.toks, "detail": v.detail})).collect::<Vec<_>>(),
            "samples": self.samples,
            "distinct_path_signatures": self.paths.len(),
            "probe_hits": probe_map,
            "unreached_probes": unreached,
            "max_loop_iterations": loops,
            "exhaustive_subspaces": self.exhaustive_notes,
            "notes": self.notes,
            "unit_digests": digests.iter().map(|(u, d)| json!([u, format!("{:016x}", d)])).collect::<Vec<_>>(),
        })
    }
}

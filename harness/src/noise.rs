//! History perturbation.  Before one case in sixteen the monitor performs a few unrelated calls into the
//! crate (failed and successful parses, renderings of multi-limb values, hashes, rescalings by several
//! hundred places, remainders, float conversions, digit counts, roots, wide comparisons) and ignores
//! their results.  The properties are claims about every call *whatever happened before on the thread*;
//! per-thread caches, scratch buffers and memos with a wrong key or a missing reset only show up when the
//! judged call follows the right predecessor.  The choice is a function of the case hash alone, so both
//! build profiles see the same history.

use bigdecimal::{BigDecimal, Context, FromPrimitive, RoundingMode, ToPrimitive};
use num_bigint::BigInt;
use std::hash::{Hash, Hasher};
use std::num::NonZeroU64;
use std::panic::{catch_unwind, AssertUnwindSafe};
use std::str::FromStr;

fn big(limbs: u32, low: u64) -> BigInt {
    // a value with the given number of 64-bit limbs whose low limbs are all `low`
    let mut n = BigInt::from(0u8);
    for _ in 0..limbs {
        n = (n << 64) + BigInt::from(low);
    }
    n
}

pub fn perturb(h: u64) {
    crate::monitor::enter_guard();
    let _ = catch_unwind(AssertUnwindSafe(|| {
        let k = (h >> 8) % 40;
        match h % 12 {
            0 => {
                // parses that fail after the mantissa was scanned, then a plain dotted numeral
                for s in ["1.5e-9223372036854775808", "12z3.12", "1.5e99999999999999999999", "7.25e", "3.1.4", "-_1.5"] {
                    let _ = BigDecimal::from_str(s);
                }
            }
            1 => {
                let _ = BigDecimal::from_str("2.5");
                let _ = BigDecimal::from_str(&format!("{}.{}e-{}", h % 1000, (h >> 20) % 100_000, k));
            }
            2 => {
                // renderings of values that share their low limbs but differ in limb count
                let low = h | 1;
                for limbs in [2u32, 3, 2, 1, 4, 2] {
                    let d = BigDecimal::new(big(limbs, low), (k as i64) - 20);
                    let _ = format!("{} {:e} {:E}", d, d, d.to_ref());
                    let _ = d.to_scientific_notation();
                }
            }
            3 => {
                // hashes of x, -x and re-scaled copies
                let d = BigDecimal::new(big(2, h | 3), -(k as i64));
                for v in [d.clone(), -d.clone(), d.with_scale(5), -d.with_scale(3), d.clone()] {
                    let mut s = std::collections::hash_map::DefaultHasher::new();
                    v.hash(&mut s);
                    let _ = s.finish();
                }
            }
            4 => {
                // rescalings by several hundred places in the order small, slightly larger, in between
                let one = BigDecimal::from(7);
                let base = 590 + (h >> 12) % 700;
                for e in [base, base + 5, base + 3, base + 25, base] {
                    let _ = one.with_scale(e as i64);
                    let _ = one.with_scale_round(e as i64, RoundingMode::Down);
                    let _ = &one + BigDecimal::new(BigInt::from(3), e as i64);
                }
            }
            5 => {
                // remainders at scale gaps 25, 30, 25 / 22, 27, 27
                let a = BigDecimal::new(BigInt::from(h | 1), 2);
                for g in [25i64, 30, 25, 22, 27, 27] {
                    let b = BigDecimal::new(BigInt::from((h >> 7) | 1), 2 + g);
                    let _ = &a % &b;
                    let _ = &b % &a;
                }
            }
            6 => {
                // float conversions: x then -x, 5^k users then 2^k users, short texts after long ones
                for f in [0.1f64, -0.1, 0.5, 9007199254740992.0, 1.5, -1.5, 1e-100, 1e-5] {
                    if let Some(d) = BigDecimal::from_f64(f) {
                        let _ = d.to_f64();
                    }
                }
                let _ = BigDecimal::from_f32(16777216.0);
                let _ = BigDecimal::from_f64(1.5);
                for s in ["1e-100", "1e-5", "0.1", "0.5"] {
                    let _ = BigDecimal::from_str(s).map(|d| d.to_f64());
                }
            }
            7 => {
                // digit counts on both sides of a power of ten with the same bit length
                let p = num_traits::pow::Pow::pow(BigInt::from(10u8), 20 + k);
                let _ = BigDecimal::new(&p - 1u8, 0).digits();
                let _ = BigDecimal::new(p.clone(), 0).digits();
                let _ = BigDecimal::new(&p + (BigInt::from(5u8) << 64), 0).digits();
            }
            8 => {
                // roots and reciprocals of short values with scales of both parities
                let c = Context::new(NonZeroU64::new(10).unwrap(), RoundingMode::HalfEven);
                for (n, s) in [(25i64, 1i64), (25, 0), (7, 1), (6, 0), (2, 3)] {
                    let d = BigDecimal::new(BigInt::from(n), s);
                    let _ = d.sqrt_with_context(&c);
                    let _ = d.cbrt_with_context(&c);
                }
                let _ = BigDecimal::new(BigInt::from(7), 1).inverse_with_context(&c);
                let _ = BigDecimal::from(6).inverse_with_context(&c);
            }
            9 => {
                // comparisons of operands wider than u128 at scale gaps 30, 5, 40
                let a = big(3, h | 1);
                for g in [30u32, 5, 40, 5] {
                    let x = BigDecimal::new(&a * num_traits::pow::Pow::pow(BigInt::from(10u8), g), g as i64);
                    let y = BigDecimal::new(a.clone(), 0);
                    let _ = x.cmp(&y);
                    let _ = x == y;
                }
            }
            10 => {
                // integer conversions and normalisation of values with many trailing zeros
                let d = BigDecimal::new(BigInt::from(7) * num_traits::pow::Pow::pow(BigInt::from(10u8), 60 + k), 5);
                let _ = d.normalized();
                let _ = d.to_i128();
                let _ = d.to_u64();
            }
            _ => {
                // precision formatting of values just above a tie, with long zero runs
                let d = BigDecimal::from_str("1.2250000000000000000007").unwrap();
                let _ = format!("{:.2} {:.2e} {:.0}", d, d, d);
            }
        }
    }));
    crate::monitor::leave_guard();
}

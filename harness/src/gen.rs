//! Seeded workload generators (splitmix64; no external crates).
//!
//! Every random choice of every check flows from `Rng`, which is seeded from
//! (VERIF_SEED, property, unit index) so a unit of work is reproducible no
//! matter which thread runs it.

use bigdecimal::BigDecimal;
use num_bigint::{BigInt, BigUint, Sign};
use num_traits::{One, Signed, Zero};

#[derive(Clone)]
pub struct Rng(pub u64);

impl Rng {
    pub fn new(seed: u64, stream: u64, unit: u64) -> Rng {
        let mut r = Rng(seed ^ 0x5851F42D4C957F2D);
        r.next();
        r.0 ^= stream.wrapping_mul(0xD6E8FEB86659FD93);
        r.next();
        r.0 ^= unit.wrapping_mul(0xCA5A826395121157);
        r.next();
        r
    }
    #[inline]
    pub fn next(&mut self) -> u64 {
        self.0 = self.0.wrapping_add(0x9E3779B97F4A7C15);
        let mut z = self.0;
        z = (z ^ (z >> 30)).wrapping_mul(0xBF58476D1CE4E5B9);
        z = (z ^ (z >> 27)).wrapping_mul(0x94D049BB133111EB);
        z ^ (z >> 31)
    }
    #[inline]
    pub fn below(&mut self, n: u64) -> u64 {
        if n == 0 { 0 } else { self.next() % n }
    }
    #[inline]
    pub fn range(&mut self, lo: i64, hi: i64) -> i64 {
        debug_assert!(lo <= hi);
        lo + (self.below((hi as i128 - lo as i128 + 1) as u64) as i64)
    }
    #[inline]
    pub fn chance(&mut self, num: u64, den: u64) -> bool {
        self.below(den) < num
    }
    pub fn pick<'a, T>(&mut self, v: &'a [T]) -> &'a T {
        &v[self.below(v.len() as u64) as usize]
    }
    pub fn bool(&mut self) -> bool {
        self.next() & 1 == 1
    }
}

/// A decimal as the pair the statements talk about: n * 10^-s
#[derive(Clone, Debug, PartialEq, Eq, Hash)]
pub struct Dec {
    pub n: BigInt,
    pub s: i64,
}

impl Dec {
    pub fn new(n: BigInt, s: i64) -> Dec { Dec { n, s } }
    pub fn bd(&self) -> BigDecimal { BigDecimal::new(self.n.clone(), self.s) }
    pub fn of(b: &BigDecimal) -> Dec {
        let (n, s) = b.as_bigint_and_exponent();
        Dec { n, s }
    }
    pub fn tok(&self) -> String { format!("{}e{}", self.n, -(self.s as i128)) }
    pub fn from_tok(t: &str) -> Option<Dec> {
        let (a, b) = t.split_once('e')?;
        let n: BigInt = a.parse().ok()?;
        let e: i128 = b.parse().ok()?;
        let s = i64::try_from(-e).ok()?;
        Some(Dec { n, s })
    }
    pub fn neg(&self) -> Dec { Dec { n: -self.n.clone(), s: self.s } }
    pub fn is_zero(&self) -> bool { self.n.is_zero() }
}

/// Digit-string families named in DESIGN.md section 5
pub fn digit_string(r: &mut Rng, len: usize) -> String {
    let len = len.max(1);
    let mut s = Vec::with_capacity(len);
    let pat = r.below(14);
    // position of a 'half-way' digit for tie families
    let cut = if len > 1 { 1 + r.below(len as u64 - 1) as usize } else { 0 };
    for i in 0..len {
        let d: u64 = match pat {
            0 => 9,                                                           // all nines
            1 => if i == 0 { 1 } else { 0 },                                  // 10^k
            2 => if i == 0 || i == len - 1 { 1 + r.below(9) } else { 0 },     // d000..0d
            3 => if r.below(5) == 0 { r.below(10) } else { 9 },               // mostly 9
            4 => if r.below(5) == 0 { r.below(10) } else { 0 },               // mostly 0
            5 => if i < cut { r.below(10) } else if i == cut { 5 } else { 0 },                       // ...5000
            6 => if i < cut { r.below(10) } else if i == cut { 4 } else { 9 },                       // ...4999
            7 => if i < cut { r.below(10) } else if i == cut { 5 } else if i == len - 1 { 1 } else { 0 }, // ...500..01
            8 => if i < cut { 9 } else if i == cut { 5 } else { 0 },          // 99..95000 (carry + tie)
            9 => if i < cut { 9 } else { r.below(10) },                       // 99..9xxxx
            _ => r.below(10),
        };
        s.push(b'0' + d as u8);
    }
    if s[0] == b'0' {
        s[0] = b'1' + r.below(9) as u8;
    }
    String::from_utf8(s).unwrap()
}

pub fn length(r: &mut Rng, lmax: usize) -> usize {
    let lmax = lmax.max(1);
    let l = match r.below(8) {
        0 => 1 + r.below(3) as usize,
        1 | 2 => 1 + r.below(20) as usize,
        3 => 15 + r.below(31) as usize,
        4 | 5 => 1 + r.below(120) as usize,
        _ => 1 + r.below(lmax as u64) as usize,
    };
    l.min(lmax)
}

/// Non-zero integer magnitude from the digit families (sign random)
pub fn int_nonzero(r: &mut Rng, lmax: usize) -> BigInt {
    let len = length(r, lmax);
    let v: BigInt = digit_string(r, len).parse().unwrap();
    if r.bool() { -v } else { v }
}

pub fn uint_nonzero(r: &mut Rng, lmax: usize) -> BigInt {
    let len = length(r, lmax);
    digit_string(r, len).parse().unwrap()
}

/// Integer, zero with probability 1/zero_den
pub fn int_any(r: &mut Rng, lmax: usize, zero_den: u64) -> BigInt {
    if zero_den > 0 && r.below(zero_den) == 0 { BigInt::zero() } else { int_nonzero(r, lmax) }
}

pub fn scale(r: &mut Rng, smax: i64, digits: i64) -> i64 {
    match r.below(8) {
        0 | 1 => r.range(-5, 5),
        2 | 3 => r.range(-50, 50).clamp(-smax, smax),
        4 => (digits + r.range(-4, 4)).clamp(-smax, smax),
        5 => 0,
        _ => r.range(-smax, smax),
    }
}

/// The scale gaps the statements name explicitly
pub const GAPS: [i64; 32] = [0, 1, 2, 3, 9, 10, 18, 19, 20, 21, 38, 39, 40, 45, 57, 76, 100, 255, 256, 257, 275, 276, 588, 589, 590, 591, 1000, 5000, 10000, 65535, 65536, 65537];

pub fn gap(r: &mut Rng, gmax: i64) -> i64 {
    let g = match r.below(4) {
        0 => r.range(0, 45),
        1 => *r.pick(&GAPS),
        2 => r.range(0, 700),
        _ => r.range(0, gmax.max(1)),
    };
    g.min(gmax)
}

pub fn dec(r: &mut Rng, lmax: usize, smax: i64) -> Dec {
    let n = int_any(r, lmax, 24);
    let d = n.to_string().trim_start_matches('-').len() as i64;
    let s = scale(r, smax, d);
    Dec { n, s }
}

pub fn dec_nonzero(r: &mut Rng, lmax: usize, smax: i64) -> Dec {
    let n = int_nonzero(r, lmax);
    let d = n.to_string().trim_start_matches('-').len() as i64;
    let s = scale(r, smax, d);
    Dec { n, s }
}

pub fn pow10(k: u64) -> BigInt {
    num_traits::pow::Pow::pow(BigInt::from(10u8), k)
}

pub fn pow10u(k: u64) -> BigUint {
    num_traits::pow::Pow::pow(BigUint::from(10u8), k)
}

/// A partner for `a`: value-equal twin, near twin, same magnitude other sign,
/// explicit scale gap, or unrelated
pub fn partner(r: &mut Rng, a: &Dec, lmax: usize, smax: i64, gmax: i64) -> Dec {
    match r.below(10) {
        0 | 1 => {
            // twin: more trailing zeros
            let k = gap(r, gmax.min(400));
            Dec { n: &a.n * pow10(k as u64), s: a.s + k }
        }
        2 => {
            // near twin: twin +- 1 unit
            let k = gap(r, gmax.min(400));
            let d = if r.bool() { BigInt::one() } else { -BigInt::one() };
            Dec { n: &a.n * pow10(k as u64) + d, s: a.s + k }
        }
        3 => {
            // unrelated digits at an explicit gap
            let n = int_any(r, lmax, 30);
            let g = gap(r, gmax);
            let s = if r.bool() { a.s + g } else { a.s - g };
            Dec { n, s }
        }
        4 => {
            // same scale
            Dec { n: int_any(r, lmax, 30), s: a.s }
        }
        5 => {
            // same digits, other scale (equal unscaled integers)
            let g = gap(r, gmax.min(60));
            Dec { n: a.n.clone(), s: if r.bool() { a.s + g } else { a.s - g } }
        }
        6 => {
            // one, written with zeros / zero with a scale
            let k = r.range(0, 40);
            if r.bool() {
                Dec { n: pow10(k as u64), s: k }
            } else {
                Dec { n: BigInt::zero(), s: scale(r, smax, 1) }
            }
        }
        7 => a.neg(),
        _ => dec(r, lmax, smax),
    }
}

/// Strip a sign-magnitude BigInt into parts
pub fn sign_mag(n: &BigInt) -> (Sign, BigUint) {
    (n.sign(), n.magnitude().clone())
}

/// count of decimal digits, computed from the decimal string (1 for zero)
pub fn ndigits(n: &BigInt) -> u64 {
    if n.is_zero() { 1 } else { n.magnitude().to_string().len() as u64 }
}

pub fn abs(n: &BigInt) -> BigInt { n.abs() }

pub fn hash64(bytes: &[u8]) -> u64 {
    // FNV-1a 64
    let mut h: u64 = 0xcbf29ce484222325;
    for b in bytes {
        h ^= *b as u64;
        h = h.wrapping_mul(0x100000001b3);
    }
    h
}

/// Integers sitting on, or one unit beside, the boundaries of machine-word size classes: +-(2^k + d) for the word
/// sizes k, +-(10^k + d) for the powers of ten nearest to them, floor(2^64 / 10^j) + d and 2^64 - 10^19 + d (what 10^19
/// becomes when narrowed to i64), d in -1..=1.  Used by the exhaustive "words" units.
pub fn word_values() -> Vec<BigInt> {
    let mut v: Vec<BigInt> = vec![];
    let one = BigInt::from(1u8);
    let mut bases: Vec<BigInt> = vec![];
    for k in [7usize, 8, 15, 16, 31, 32, 52, 53, 63, 64, 96, 127, 128, 192] { bases.push(&one << k); }
    for k in [2u64, 4, 9, 10, 15, 16, 17, 18, 19, 20, 38, 39, 40] { bases.push(pow10(k)); }
    for j in 1u64..=4 { bases.push((&one << 64usize) / pow10(j)); }
    bases.push((&one << 64usize) - pow10(19));
    bases.push((&one << 63usize) / 5);
    for b in bases {
        for d in -1i64..=1 {
            v.push(&b + d);
            v.push(-(&b + d));
        }
    }
    v.sort();
    v.dedup();
    v
}

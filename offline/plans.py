"""Per-property driver plans: which lanes run for a property besides the standard
two-profile monitor run (offline re-check of the event log, configuration builds, Miri)."""
import json
import os

import recheck

EVENT_BUDGET = {"quick": 20000, "thorough": 200000}


def run_property(drv, prop, tier, seed):
    budget = EVENT_BUDGET[tier] if prop in recheck.CHECKERS else 0
    outcome = drv.standard_run(prop, tier, seed, event_budget=budget)
    if budget and outcome.get("events") and os.path.exists(outcome["events"]):
        rep = recheck.recheck_file(prop, outcome["events"])
        outcome.setdefault("extra_coverage", {})["offline_rechecked"] = rep["checked"]
        outcome["extra_coverage"]["offline_checker"] = "python3 int/Fraction/decimal re-computation of the logged events (offline/recheck.py)"
        if rep["disagreements"]:
            # the in-process model and the Python re-computation disagree about what is correct:
            # a harness defect, never reported as a violation of the property
            outcome["inconclusive"] = "offline-checker-disagrees-with-model:" + json.dumps(rep["disagreements"][:2])[:500]
        for v in rep.get("violations", []):
            outcome["violations"].append((v, "rel/offline"))
    return outcome

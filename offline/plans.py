"""Per-property driver plans: which lanes run for a property besides the standard
two-profile monitor run (offline re-check of the event log, configuration builds, Miri)."""
import json
import os

import recheck

EVENT_BUDGET = {"quick": 20000, "thorough": 200000}
# properties whose deciding oracle is the offline checker (every event is logged and judged)
PRIMARY_OFFLINE = {"C13"}


CFG_ENV = {
    "precision": "RUST_BIGDECIMAL_DEFAULT_PRECISION",
    "mode": "RUST_BIGDECIMAL_DEFAULT_ROUNDING_MODE",
    "lower": "RUST_BIGDECIMAL_FMT_EXPONENTIAL_LOWER_THRESHOLD",
    "upper": "RUST_BIGDECIMAL_FMT_EXPONENTIAL_UPPER_THRESHOLD",
    "padding": "RUST_BIGDECIMAL_FMT_MAX_INTEGER_PADDING",
}
MODES = ["Up", "Down", "Ceiling", "Floor", "HalfUp", "HalfDown", "HalfEven"]
PRECISIONS = [1, 2, 3, 7, 16, 34, 100, 250]
LOWERS = [1, 5, 9]
UPPERS = [0, 2, 15, 40]
PADDINGS = [0, 5, 1000]


def cfg_env(cfg):
    return {CFG_ENV[k]: str(v) for k, v in cfg.items()}


def c20_configs(tier, seed):
    quick = [
        (1, "Up", 1, 0, 0), (2, "Down", 5, 2, 5), (3, "Ceiling", 9, 15, 1000), (7, "Floor", 1, 40, 5),
        (16, "HalfUp", 5, 0, 1000), (34, "HalfDown", 9, 2, 0), (100, "HalfEven", 5, 15, 1000),
        (250, "HalfDown", 1, 15, 0), (2, "HalfEven", 9, 40, 5), (3, "HalfUp", 1, 2, 1000),
    ]
    if tier == "quick":
        cfgs = quick
    else:
        # every (precision, mode) pair once; the three Display settings cycle so that all pairs of
        # their values occur as well (seed rotates the assignment)
        cfgs = list(quick)
        i = seed
        for p in PRECISIONS:
            for m in MODES:
                c = (p, m, LOWERS[i % 3], UPPERS[(i // 3) % 4], PADDINGS[(i // 12 + i) % 3])
                i += 1
                if c not in cfgs:
                    cfgs.append(c)
    return [dict(precision=c[0], mode=c[1], lower=c[2], upper=c[3], padding=c[4]) for c in cfgs]


def merge_profile(acc, r):
    if acc is None:
        return json.loads(json.dumps(r))
    for k in ("evaluations", "cases", "held", "distinct_nontrivial", "panics_caught", "enumerated_nontrivial", "wall_s"):
        acc[k] = acc.get(k, 0) + r.get(k, 0)
    acc["distinct_path_signatures"] = max(acc.get("distinct_path_signatures", 0), r.get("distinct_path_signatures", 0))
    for k in ("probe_hits", "violation_counts", "notes"):
        for a, b in r.get(k, {}).items():
            acc.setdefault(k, {})[a] = acc.get(k, {}).get(a, 0) + b
    for a, b in r.get("max_loop_iterations", {}).items():
        acc.setdefault("max_loop_iterations", {})[a] = max(acc.get("max_loop_iterations", {}).get(a, 0), b)
    acc["unreached_probes"] = [x for x in acc.get("unreached_probes", []) if x in r.get("unreached_probes", [])]
    for x in r.get("exhaustive_subspaces", []):
        if x not in acc.setdefault("exhaustive_subspaces", []):
            acc["exhaustive_subspaces"].append(x)
    acc["samples"] = (acc.get("samples", []) + r.get("samples", [])[:1])[:10]
    acc["distinct_capped"] = acc.get("distinct_capped", False) or r.get("distinct_capped", False)
    return acc


def run_c20(drv, prop, tier, seed):
    cfgs = c20_configs(tier, seed)
    merged = {"rel": None, "chk": None}
    outcome = {"violations": [], "notes": {"profile_divergent_units": 0}, "cfg_for": {}, "extra_coverage": {}, "extra_samples": []}
    rechecked = 0
    per_cfg = []
    for i, cfg in enumerate(cfgs):
        bins = drv.build(prop, extra_env=cfg_env(cfg), target_suffix="-cfg")
        extra = []
        for k, v in cfg.items():
            extra += ["--cfg", "%s=%s" % (k, v)]
        o = drv.standard_run(prop, tier, seed, extra_args=extra, bins=bins, event_budget=50_000_000, tag=".cfg%d" % i)
        for v, p in o["violations"]:
            v = dict(v)
            v["detail"] = "[configuration %s] %s" % (json.dumps(cfg, sort_keys=True), v.get("detail", ""))
            outcome["cfg_for"][id(v)] = {k: str(x) for k, x in cfg.items()}
            outcome["violations"].append((v, p))
        outcome["notes"]["profile_divergent_units"] += o["notes"].get("profile_divergent_units", 0)
        if o.get("events") and os.path.exists(o["events"]):
            rep = recheck.recheck_file(prop, o["events"])
            rechecked += rep["checked"]
            for v in rep.get("violations", []):
                v["detail"] = "[configuration %s] %s" % (json.dumps(cfg, sort_keys=True), v.get("detail", ""))
                outcome["cfg_for"][id(v)] = {k: str(x) for k, x in cfg.items()}
                outcome["violations"].append((v, "rel/offline"))
            if rep["disagreements"]:
                outcome["inconclusive"] = "offline-checker-disagrees-with-model"
        for p in ("rel", "chk"):
            merged[p] = merge_profile(merged[p], o["results"][p])
        per_cfg.append({"configuration": cfg, "cases": o["results"]["rel"].get("cases"), "evaluations": o["results"]["rel"].get("evaluations"),
                        "violation_signatures": sorted(set(list(o["results"]["rel"].get("violation_counts", {})) + list(o["results"]["chk"].get("violation_counts", {}))))})
    # violation counts are re-derived by the driver from the merged per-profile files
    outcome["results"] = merged
    outcome["extra_coverage"]["configurations"] = per_cfg
    outcome["extra_coverage"]["configurations_built"] = len(cfgs)
    outcome["extra_coverage"]["offline_rechecked"] = rechecked
    outcome["assumptions"] = ["%d of the 8*7*3*4*3 = 2016 configurations are built (every precision, every mode, every threshold and padding value at least once; all precision x mode pairs in the thorough tier)" % len(cfgs)]
    return outcome


MIRI_PROPS = {"C02", "C03", "C05"}


def miri_lane(drv, prop, seed, shards=8):
    """Auxiliary sanitizer lane (thorough tier): the same monitors under the Miri interpreter, which
    checks the unsafe code of num-bigint / std that the API reaches for undefined behaviour.
    Returns (coverage dict, violations, inconclusive_reason)."""
    import subprocess
    env = drv.env_for_build({"MIRIFLAGS": "-Zmiri-disable-isolation"})
    target = os.path.join(drv.HARNESS, "target-miri" + drv.ALT_SUFFIX)
    base = ["cargo", "+nightly", "miri", "run", "--offline", "--quiet", "--target-dir", target]
    if drv.ALT_REPO:
        base += ["--config", 'paths=["%s"]' % drv.ALT_REPO]
    procs = []
    for i in range(shards):
        out = os.path.join(drv.RUN, "%s.miri%d.json" % (prop, i))
        if os.path.exists(out):
            os.remove(out)
        cmd = base + ["--", "run", prop, "--tier", "miri", "--seed", str(seed * 1000 + i), "--out", out, "--threads", "1", "--profile", "miri"]
        procs.append((out, subprocess.Popen(cmd, cwd=drv.HARNESS, env=env, stdout=subprocess.PIPE, stderr=subprocess.PIPE, text=True)))
    cov = {"shards": shards, "cases": 0, "evaluations": 0, "undefined_behaviour_reports": 0}
    violations = []
    reason = None
    for i, (out, p) in enumerate(procs):
        try:
            _o, err = p.communicate(timeout=3 * 3600)
        except subprocess.TimeoutExpired:
            p.kill()
            reason = "miri-watchdog"
            continue
        if "Undefined Behavior" in err:
            cov["undefined_behaviour_reports"] += 1
            block = err[err.index("Undefined Behavior") - 40:][:1500]
            violations.append({"sig": "%s/miri-undefined-behaviour" % prop, "case": ["miri-shard", str(seed * 1000 + i)], "detail": block})
        elif p.returncode != 0 or not os.path.exists(out):
            reason = "miri-run-failed: " + err[-300:].replace("\n", " ")
        if os.path.exists(out):
            with open(out) as f:
                r = json.load(f)
            cov["cases"] += r.get("cases", 0)
            cov["evaluations"] += r.get("evaluations", 0)
            for v in r.get("violations", []):
                violations.append(v)
    return cov, violations, reason


def run_property(drv, prop, tier, seed):
    if prop == "C20":
        return run_c20(drv, prop, tier, seed)
    if prop in MIRI_PROPS and tier == "thorough":
        outcome = _standard(drv, prop, tier, seed)
        cov, viol, reason = miri_lane(drv, prop, seed)
        outcome.setdefault("extra_coverage", {})["miri_lane"] = cov
        outcome["extra_evaluations"] = outcome.get("extra_evaluations", 0) + cov["evaluations"]
        for v in viol:
            outcome["violations"].append((v, "miri"))
        if reason and not outcome.get("inconclusive"):
            outcome["inconclusive"] = reason
        return outcome
    return _standard(drv, prop, tier, seed)


def _standard(drv, prop, tier, seed):
    budget = EVENT_BUDGET[tier] if prop in recheck.CHECKERS else 0
    if prop in PRIMARY_OFFLINE:
        budget = 50_000_000  # the offline checker is the oracle: log every case
    outcome = drv.standard_run(prop, tier, seed, event_budget=budget)
    if budget and outcome.get("events") and os.path.exists(outcome["events"]):
        rep = recheck.recheck_file(prop, outcome["events"])
        outcome.setdefault("extra_coverage", {})["offline_rechecked"] = rep["checked"]
        outcome["extra_coverage"]["offline_checker"] = "python3 int/Fraction/decimal re-computation of the logged events (offline/recheck.py)"
        if rep["disagreements"]:
            # the in-process model and the Python re-computation disagree about what is correct:
            # a harness defect, never reported as a violation of the property
            outcome["inconclusive"] = "offline-checker-disagrees-with-model:" + json.dumps(rep["disagreements"][:2])[:500]
        for v in rep.get("violations", []):
            outcome["violations"].append((v, "rel/offline"))
    return outcome

"""Second-opinion re-computation of the in-process reference model (Python int / Fraction).

Each logged event carries the inputs, the crate's output and the in-process verdict
(`held`).  The functions here decide `held` again from scratch; a difference between the two
verdicts means the harness (model or this file) is wrong and the run is INCONCLUSIVE.
"""
from fractions import Fraction
import math


def dec(tok):
    a, b = tok.split("e")
    return int(a), int(b)


def frac(tok):
    n, e = dec(tok)
    return Fraction(n) * Fraction(10) ** e


def ndigits(n):
    return len(str(abs(n))) if n else 1


def rounds_away(mode, negative, odd, cmp_half, exact):
    """cmp_half: -1 tail below half, 0 exactly half, +1 above half; exact: tail is zero"""
    if exact:
        return False
    if mode == "Up":
        return True
    if mode == "Down":
        return False
    if mode == "Ceiling":
        return not negative
    if mode == "Floor":
        return negative
    if mode == "HalfUp":
        return cmp_half >= 0
    if mode == "HalfDown":
        return cmp_half > 0
    if mode == "HalfEven":
        return cmp_half > 0 or (cmp_half == 0 and odd)
    raise ValueError(mode)


def round_fraction(x, unit_exp, mode):
    """round the Fraction x to a multiple of 10^unit_exp; returns the integer multiple"""
    u = Fraction(10) ** unit_exp
    neg = x < 0
    m = abs(x) / u
    q = m.numerator // m.denominator
    rem = m - q
    c = (rem > Fraction(1, 2)) - (rem < Fraction(1, 2))
    if rounds_away(mode, neg, q % 2 == 1, c, rem == 0):
        q += 1
    return -q if neg else q


def round_to_scale(tok, scale, mode):
    return round_fraction(frac(tok), -scale, mode), scale


def leading_exp(x):
    """e such that 10^e <= |x| < 10^(e+1), x != 0"""
    x = abs(x)
    e = len(str(x.numerator)) - len(str(x.denominator))
    while Fraction(10) ** e > x:
        e -= 1
    while Fraction(10) ** (e + 1) <= x:
        e += 1
    return e


def round_to_prec_value(x, p, mode):
    if x == 0:
        return Fraction(0)
    e = leading_exp(x)
    unit = e - p + 1
    return round_fraction(x, unit, mode) * Fraction(10) ** unit


def iroot(n, k):
    if k == 2:
        return math.isqrt(n)
    # integer k-th root by Newton, then bracket
    if n < 2:
        return n
    x = 1 << ((n.bit_length() + k - 1) // k)
    while True:
        y = ((k - 1) * x + n // x ** (k - 1)) // k
        if y >= x:
            break
        x = y
    while x ** k > n:
        x -= 1
    while (x + 1) ** k <= n:
        x += 1
    return x


def root_rounded(x, k, p, mode, negative):
    """correctly rounded k-th root of the positive Fraction x to p significant digits"""
    # decade of the root
    e = leading_exp(x)
    re = e // k  # floor
    unit = re - p + 1
    # q = floor(root / 10^unit) = floor(root(x / 10^(k*unit)))
    m = x / Fraction(10) ** (k * unit)
    fl = m.numerator // m.denominator
    q = iroot(fl, k)
    exact = (m.denominator == 1) and q ** k == m.numerator
    # compare m with (q + 1/2)^k
    half = Fraction(2 * q + 1, 2) ** k
    c = (m > half) - (m < half)
    if rounds_away(mode, negative, q % 2 == 1, c, exact):
        q += 1
    v = q * Fraction(10) ** unit
    return -v if negative else v


def check_event(ev):
    """returns (held_again: bool or None if not handled)"""
    op = ev["op"]
    ins = ev.get("in", [])
    c = ev.get("ctx", {})
    if op == "with_scale_round":
        want = round_to_scale(ins[0], c["scale"], c["mode"])
        gn, ge = dec(ev["out"])
        return (gn, -ge) == want
    if op == "round_prec":
        want = round_to_prec_value(frac(ins[0]), c["p"], c["mode"])
        return frac(ev["out"]) == want
    if op in ("add", "sub", "mul"):
        a, b = frac(ins[0]), frac(ins[1])
        want = a + b if op == "add" else a - b if op == "sub" else a * b
        return frac(ev["out"]) == want
    if op == "rem":
        a, b = frac(ins[0]), frac(ins[1])
        q = abs(a) // abs(b)
        if (a < 0) != (b < 0):
            q = -q
        return frac(ev["out"]) == a - b * q
    if op == "div":
        a, b = frac(ins[0]), frac(ins[1])
        prec = c.get("prec", 100)
        t = a / b
        r = frac(ev["out"])
        if t == 0:
            return r == 0
        # terminating within prec digits?
        d = t.denominator
        while d % 2 == 0:
            d //= 2
        while d % 5 == 0:
            d //= 5
        if d == 1:
            # digits of the terminating expansion
            den = t.denominator
            num = abs(t.numerator)
            while den != 1:
                num *= 10
                g = math.gcd(num, den)
                num //= g
                den //= g
            s = str(num).rstrip("0") or "0"
            if len(s) <= prec:
                return r == t
        gn, ge = dec(ev["out"])
        if ndigits(gn) < prec or (r < 0) != (t < 0) or r == 0:
            return False
        ulp = Fraction(10) ** ge
        err = abs(r - t)
        if err * 2 > ulp:
            return False
        if err * 2 == ulp:
            return abs(r) > abs(t)
        return True
    if op in ("sqrt", "cbrt"):
        x = frac(ins[0])
        k = 2 if op == "sqrt" else 3
        want = root_rounded(abs(x), k, c["p"], c["mode"], x < 0)
        return frac(ev["out"]) == want
    if op == "inverse":
        x = frac(ins[0])
        p = c["p"]
        r = frac(ev["out"])
        t = 1 / x
        if r == 0 or (r < 0) != (x < 0):
            return False
        unit = Fraction(10) ** (leading_exp(t) - p + 1)
        if abs(r - t) >= unit:
            return False
        # exact when 1/x has at most p digits
        d = t.denominator
        while d % 2 == 0:
            d //= 2
        while d % 5 == 0:
            d //= 5
        if d == 1:
            num, den = abs(t.numerator), t.denominator
            while den != 1:
                num *= 10
                g = math.gcd(num, den)
                num //= g
                den //= g
            s = str(num).rstrip("0") or "0"
            if len(s) <= p:
                return r == t
        return True
    if op == "trunc":
        x = frac(ins[0])
        t = abs(x.numerator) // x.denominator
        t = -t if x < 0 else t
        return str(t) == ev["out"]
    if op == "from_f64":
        import struct
        f = struct.unpack(">d", bytes.fromhex(ins[0]))[0]
        return Fraction(f) == frac(ev["out"])
    if op == "to_f64":
        import struct
        g = struct.unpack(">d", bytes.fromhex(ev["out"]))[0]
        t = frac(ins[0])
        if g != g:
            return False
        mx = Fraction(struct.unpack(">d", bytes.fromhex("7fefffffffffffff"))[0])
        mn = Fraction(struct.unpack(">d", bytes.fromhex("0010000000000000"))[0])
        if g in (float("inf"), float("-inf")):
            return (g < 0) == (t < 0) and (abs(t) > mx or abs(mx - abs(t)) * 2 ** 48 <= abs(t))
        G = Fraction(g)
        if G != 0 and (G < 0) != (t < 0):
            return False
        if abs(t) < mn:
            return abs(G - t) <= Fraction(1, 2 ** 1074)
        return abs(G - t) * 2 ** 48 <= abs(t)
    return None

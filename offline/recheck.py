"""Offline second opinion: re-verify logged events with Python int / Fraction / decimal,
an implementation that shares no code with num-bigint.

Event line (JSON): {"p": "C10", "op": "...", "in": [...], "ctx": [...], "out": "...", "want": "..."}
Decimals are written "<int>e<exp>" (value = int * 10^exp).
"""
import json
import sys
from fractions import Fraction

if hasattr(sys, "set_int_max_str_digits"):
    sys.set_int_max_str_digits(0)


def dec(tok):
    a, b = tok.split("e")
    return int(a), int(b)


def frac(tok):
    n, e = dec(tok)
    return Fraction(n) * (Fraction(10) ** e)


CHECKERS = {}


def checker(prop):
    def deco(f):
        CHECKERS[prop] = f
        return f
    return deco


def recheck_file(prop, path):
    f = CHECKERS[prop]
    checked = 0
    disagreements = []
    violations = []
    with open(path) as fh:
        for line in fh:
            line = line.strip()
            if not line:
                continue
            ev = json.loads(line)
            try:
                verdict = f(ev)
            except Exception as e:  # a crash of the checker is a harness defect, never a violation
                verdict = ("disagree", "offline checker raised %s: %s" % (type(e).__name__, str(e)[:200]))
            checked += 1
            if verdict is None:
                continue
            kind, text = verdict
            if kind == "disagree":
                disagreements.append({"event": ev, "why": text})
            elif kind == "violation":
                violations.append({"sig": "%s/offline/%s" % (prop, ev.get("op", "?")), "case": ev.get("case", [ev.get("op", "?")] + ev.get("in", [])), "detail": text})
    return {"checked": checked, "disagreements": disagreements, "violations": violations}


# ---------------------------------------------------------------- C13: exp (primary oracle)
import decimal


@checker("C20")
def check_exp_cfg(ev):
    return check_exp(ev)


@checker("C13")
def check_exp(ev):
    if ev.get("op") != "exp":
        return None
    xn, xe = dec(ev["in"][0])
    rn, re_ = dec(ev["out"])
    prec = int(ev.get("prec", 100))
    ctx = decimal.Context(prec=prec + 50, Emax=decimal.MAX_EMAX, Emin=decimal.MIN_EMIN)
    x = ctx.scaleb(decimal.Decimal(xn), xe) if True else None
    # exact construction of x (no rounding): Decimal(int) is exact, scaleb is exact
    x = decimal.Decimal(xn).scaleb(xe, context=decimal.Context(prec=max(len(str(abs(xn))) + 5, 28), Emax=decimal.MAX_EMAX, Emin=decimal.MIN_EMIN))
    ref = ctx.exp(x)
    if rn <= 0:
        return ("violation", "exp(%s) = %s is not positive" % (ev["in"][0], ev["out"]))
    big = decimal.Context(prec=prec + 300, Emax=decimal.MAX_EMAX, Emin=decimal.MIN_EMIN)
    r = decimal.Decimal(rn).scaleb(re_, context=big)
    # one unit of the 100th significant digit of the true value
    ulp = decimal.Decimal(1).scaleb(ref.adjusted() - (prec - 1), context=big)
    err = abs(big.subtract(r, ref))
    slack = big.multiply(abs(ref), decimal.Decimal(1).scaleb(-(prec + 40)))
    if err > big.add(ulp, slack):
        return ("violation", "exp(%s) = %s differs from e^x = %s... by %s units of the last (%d-th) digit" % (
            ev["in"][0][:80], ev["out"], str(ref)[:110], str(big.divide(err, ulp))[:12], prec))
    if xn == 0 and r != 1:
        return ("violation", "exp(0) = %s" % ev["out"])
    return None


# ---------------------------------------------------------------- second opinion on the in-process model
import secondop


def _second_opinion(ev):
    if "held" not in ev:
        return None
    again = secondop.check_event(ev)
    if again is None:
        return None
    if bool(again) != bool(ev["held"]):
        return ("disagree", "in-process verdict held=%s, python re-computation held=%s" % (ev["held"], again))
    return None


for _p in ("C01", "C06", "C07", "C08", "C09", "C10", "C11", "C12", "C14", "C15"):
    CHECKERS[_p] = _second_opinion

"""Offline second opinion: re-verify logged events with Python int / Fraction / decimal,
an implementation that shares no code with num-bigint.

Event line (JSON): {"p": "C10", "op": "...", "in": [...], "ctx": [...], "out": "...", "want": "..."}
Decimals are written "<int>e<exp>" (value = int * 10^exp).
"""
import json
from fractions import Fraction


def dec(tok):
    a, b = tok.split("e")
    return int(a), int(b)


def frac(tok):
    n, e = dec(tok)
    return Fraction(n) * (Fraction(10) ** e)


CHECKERS = {}


def checker(prop):
    def deco(f):
        CHECKERS[prop] = f
        return f
    return deco


def recheck_file(prop, path):
    f = CHECKERS[prop]
    checked = 0
    disagreements = []
    violations = []
    with open(path) as fh:
        for line in fh:
            line = line.strip()
            if not line:
                continue
            ev = json.loads(line)
            verdict = f(ev)
            checked += 1
            if verdict is None:
                continue
            kind, text = verdict
            if kind == "disagree":
                disagreements.append({"event": ev, "why": text})
            elif kind == "violation":
                violations.append({"sig": "%s/offline/%s" % (prop, ev.get("op", "?")), "case": ev.get("case", [ev.get("op", "?")] + ev.get("in", [])), "detail": text})
    return {"checked": checked, "disagreements": disagreements, "violations": violations}

#!/usr/bin/env python3
"""Regenerate MANIFEST.json from the table below (keeps it schema-valid and consistent)."""
import json, subprocess

HOOK_COMMITS = ["af8767b"]

# id -> (technique, level text, level note, design ref)
BUILT = {
 "C01": ("reference-model monitor (exact integer arithmetic) over every operator overload, run in release and overflow-checked builds",
         "held-on-observed-executions: each generated pair is pushed through ~135 call shapes and every result is compared by value with an exact model; strength comes from boundary-dense operand families (scale gaps at the power-of-ten algorithm switches and at byte/word truncation points, zeros with scale, ones written 1.00) and from running the same cases in an overflow-checked build",
         "trusts num-bigint integer add/mul (shared with the crate) and the generator families; inputs not generated are not judged", "DESIGN.md section 5 C01"),
 "C02": ("reference-model monitor on 17 comparison forms + enumerated carry-boundary limb workload; rel vs overflow-checked build comparison",
         "held-on-observed-executions: the model order (sign, adjusted exponent, aligned integers) is compared with every comparison operator in both operand orders, plus antisymmetry, transitivity on chains and sort; the carry-overflow boundary family of the word-wise equality loop and limb-damaged twins are enumerated, not sampled",
         "trusts num-bigint comparison/multiplication for the model; build-profile independence is checked for release vs overflow-checks+debug-assertions only", "DESIGN.md section 5 C02"),
 "C03": ("recording-hasher monitor: byte stream and write boundaries of Hash for sets of model-equal representations, five hashers, HashSet round trips",
         "held-on-observed-executions: equal values (by the model) must feed identical bytes in identical write calls to a recording hasher and agree under DefaultHasher, FNV, SipHash-1-3 and a chunk-sensitive hasher; zeros of any scale and arithmetic-built zeros included",
         "scales bounded to +-10^5 as the statement allows; collision quality is reported, not judged", "DESIGN.md section 5 C03"),
 "C04": ("render-then-reparse monitor over ten renderings with an exhaustive digit-length x scale grid and threshold oracle",
         "held-on-observed-executions: every rendering must parse back value-equal, keep (digits, scale) where the statement says so, respect the Display thresholds and length bound; the 40 x 101 grid is enumerated, wide scales to +-10^15 sampled; one known finding (plain notation cannot keep a negative scale) is reported as KNOWN-FINDING",
         "re-parsing uses the crate's own parser (judged separately by C05)", "DESIGN.md section 5 C04"),
 "C05": ("differential monitor against a byte-level reference recogniser; exhaustive strings over an 11-symbol alphabet; mutation workload",
         "held-on-observed-executions with an exhaustive core: every string up to length 6 (quick) / 8 (thorough) over {0,1,7,+,-,.,e,E,_,x,space} is judged accept/reject and exact (digits, scale); grammar-generated long numerals, extreme exponents, byte mutations incl. invalid UTF-8 and radix != 10 through all four entry points; panics are caught and judged",
         "the recogniser is my reading of the statement's grammar (40 lines, independent of the crate)", "DESIGN.md section 5 C05"),
 "C06": ("small-scope exhaustive + seeded reference-model monitor for with_scale_round / with_scale / round / round_pair / round_u32",
         "held-on-observed-executions with exhaustive cores: all |n| < 2000 (quick) / 10^5 (thorough) x scales x targets x 7 modes against an independent machine-integer model; all 4200 round_pair arguments; long inputs with tie tails and carries against the BigInt model",
         "round(n) is judged against HalfEven (the default build's mode; C20 covers other configurations)", "DESIGN.md section 5 C06"),
 "C07": ("reference-model monitor over all precision-rounding entry points incl. Context sums",
         "held-on-observed-executions: value equality with the model's rounding at the p-th digit for eight entry points (value, reference, big integer, negated input) and four add_refs forms; every p for short inputs; cancelling and far-apart sums",
         "representation after a carry is not constrained beyond the value, as the statement allows", "DESIGN.md section 5 C07"),
 "C08": ("integer-inequality monitor for correctly rounded division + primitive/float agreement + zero-divisor panic matrix (catch_unwind)",
         "held-on-observed-executions: half-ulp and tie rules decided by exact integer comparisons; exactness from the reduced denominator; 294 zero-divisor call shapes per case must panic; all ownership forms identical",
         "float divisors restricted to normal floats as the statement says; float zero divisors are not judged", "DESIGN.md section 5 C08"),
 "C09": ("reference-model monitor for the truncated-division identity on five remainder forms + zero-divisor panics",
         "held-on-observed-executions: exact value, magnitude bound, sign rule and independence from the divisor's sign checked separately; scale gaps to 10^4 in both directions",
         "trusts num-bigint integer % for the model (the identity a = b*q + r is re-checked on every case)", "DESIGN.md section 5 C09"),
 "C10": ("correct-rounding oracle from a verified integer-root bracket; directed-mode inequalities; value/reference/abs/copysign forms",
         "held-on-observed-executions: exactly one admissible value per (x, p, mode), ties decided on the true value; constructed families for long inputs, perfect squares +- far unit, 5000../4999.. tails",
         "integer square roots come from num-bigint but are bracket-verified before use", "DESIGN.md section 5 C10"),
 "C11": ("correct-rounding oracle (cube root) with signed Floor/Ceiling, mirror-identity monitor",
         "held-on-observed-executions: as C10 for k = 3 with all scale residues, plus cbrt(-x, m) = -cbrt(x, mirror m) on the crate's own outputs",
         "integer cube roots are bracket-verified", "DESIGN.md section 5 C11"),
 "C12": ("four-clause monitor for the reciprocal (sign, < 1 unit error by integer inequality, exactness, mirror identity) + loop-progress guard",
         "held-on-observed-executions: termination is judged as bounded progress (iteration counts reported, cap 256); terminating reciprocals at and around their exact length; f64-underflow bit lengths",
         "an unbounded loop that never reaches the guard site would only be seen by the watchdog (inconclusive)", "DESIGN.md section 5 C12"),
 "C13": ("offline checker over the event log: Python decimal (libmpdec) exp at 150 digits is the oracle; in-process positivity and metamorphic monitors",
         "held-on-observed-executions: every exp() call is logged and judged offline to one unit of the 100th digit; integers -120..120 (quick) / -1000..1000 (thorough) exhaustively",
         "trusts libmpdec's correctly rounded exp", "DESIGN.md section 5 C13"),
 "C14": ("exact binary-value oracle over enumerated f32 bit patterns (all 2^32 in thorough) and f64 boundary families; exact rational tolerance check for to_f64",
         "held-on-observed-executions with exhaustive cores: 2^24 stratified f32 patterns quick, all 2^32 thorough; to_f64 judged by exact rational inequalities incl. the infinity and subnormal clauses",
         "to_f64 is judged against the statement's tolerance, not optimal rounding", "DESIGN.md section 5 C14"),
 "C15": ("reference-model monitor (trunc in the model) for all integer conversions near every type limit; constructor exactness",
         "held-on-observed-executions: 12 target types on value and reference, to_bigint, is_integer; values within +-2 / +-0.5 of every MIN/MAX in several representations",
         "none beyond the generators", "DESIGN.md section 5 C15"),
 "C16": ("print-and-reparse monitor with an independent numeral recogniser; small-scope exhaustive {:.N}/{:.Ne}; flag-semantics oracle",
         "held-on-observed-executions with exhaustive core: all |n| < 2000 / 10^5 x scales x N 0..9; 24 flag specifications x 5 format kinds must equal the unflagged numeral padded by the std rules",
         "std::fmt padding semantics re-implemented in 15 lines as the oracle", "DESIGN.md section 5 C16"),
 "C17": ("round-trip and digit-for-digit monitors over serde_json text, Value, json_num adapters and serde token deserializers",
         "held-on-observed-executions: string form, json_num, json_num_option, JSON documents incl. malformed ones, integer/float/string tokens; limit clause at +-1 around the bound and at i64 extremes; one known finding (serde_json Value route via f64) is reported as KNOWN-FINDING",
         "JSON number grammar and the serde_json dispatch predicate are re-implemented in the harness", "DESIGN.md section 5 C17"),
 "C18": ("accessor-consistency and canonical-form monitors with an exhaustive power-of-ten sweep",
         "held-on-observed-executions with exhaustive cores: 10^k, 10^k+-1 for every k (1200 quick / 5000 thorough), all small values x scales; digits from the decimal string, exact extensions, normalized form",
         "none beyond the generators", "DESIGN.md section 5 C18"),
 "C19": ("history monitor: straight-line programs evaluated step by step against an exact model, with ==/cmp/Hash cross-checks and history minimisation",
         "held-on-observed-executions: every prefix of every program is a judged history; overloads and assignment forms chosen at random per step",
         "program length bounded at 40 and digit growth capped", "DESIGN.md section 5 C19"),
 "C20": ("configuration sweep: the harness is rebuilt under each RUST_BIGDECIMAL_* setting and the monitors of C06/C08/C10-C13/C16 run against the intended values",
         "held-on-observed-executions over 10 (quick) / ~60 (thorough) build configurations covering every precision, mode, threshold and padding value; division exhaustive below 1000 at P <= 3; exp judged offline at the configured precision",
         "2016 possible configurations are sampled; no_std and string-only builds are not explored", "DESIGN.md section 5 C20"),
}

TITLES = {}
for line in open('/verif/properties.jsonl'):
    p = json.loads(line)
    TITLES[p["id"]] = p["title"]

checks = []
na = []
for pid in sorted(TITLES):
    if pid in BUILT:
        tech, text, note, ref = BUILT[pid]
        checks.append({
            "property_id": pid,
            "quick_cmd": "./check %s quick" % pid,
            "thorough_cmd": "./check %s thorough" % pid,
            "evidence_file": "/verif/evidence/%s.json" % pid,
            "replay_cmd_template": "./check %s --replay {path}" % pid,
            "engine": "bdverif",
            "level_claimed": {"category": "exploration", "text": text, "design_ref": ref},
            "level_note": note,
            "technique": tech,
        })
    else:
        na.append({"property_id": pid, "reason": "monitor not built yet in this round (planned in DESIGN.md section 5; runtime monitoring applies)"})

manifest = {
 "version": 1,
 "setup_cmd": "./check --setup",
 "hooks": {
  "guard": "bigdecimal_verif",
  "enable": "RUSTFLAGS=\"--cfg bigdecimal_verif\" is set by ./check for every harness build; the harness crate path-depends on /repo, so each check rebuilds /repo's working tree with the hooks on",
  "baseline_off_cmd": "cd /repo && cargo test --workspace --no-fail-fast --offline",
  "source_commits": HOOK_COMMITS,
  "add_only": True,
 },
 "engines": [
  {"name": "bdverif", "path": "/verif/harness", "serves_properties": sorted(BUILT),
   "kind_free_text": "Rust harness binary: seeded/enumerated workloads -> real crate (release build and overflow-checks+debug-assertions build, hooks on) -> in-process reference-model monitors -> result files; python driver ./check classifies, compares profiles, re-checks a sampled event log offline, writes evidence"},
 ],
 "checks": checks,
 "not_applicable": na,
 "notes": "Runtime monitoring only: every verdict is 'held on the executions observed' or a witness. Exit 0 held / 1 VIOLATION / 2 INCONCLUSIVE. Known findings: /verif/known_findings.json.",
}
json.dump(manifest, open('/verif/MANIFEST.json', 'w'), indent=1)
print("wrote MANIFEST.json: %d checks, %d not_applicable" % (len(checks), len(na)))

#!/usr/bin/env python3
"""Regenerate MANIFEST.json from the table below (keeps it schema-valid and consistent)."""
import json, subprocess

HOOK_COMMITS = ["af8767b"]

# id -> (technique, level text, level note, design ref)
BUILT = {
 "C01": ("reference-model monitor (exact integer arithmetic) over every operator overload, run in release and overflow-checked builds",
         "held-on-observed-executions: each generated pair is pushed through ~135 call shapes and every result is compared by value with an exact model; strength comes from boundary-dense operand families (scale gaps at the power-of-ten algorithm switches, zeros with scale, ones written 1.00) and from running the same cases in an overflow-checked build",
         "trusts num-bigint integer add/mul (shared with the crate) and the generator families; inputs not generated are not judged", "DESIGN.md section 5 C01"),
 "C02": ("reference-model monitor on 17 comparison forms + enumerated carry-boundary limb workload; rel vs overflow-checked build comparison",
         "held-on-observed-executions: the model order (sign, adjusted exponent, aligned integers) is compared with every comparison operator in both operand orders, plus antisymmetry, transitivity on chains and sort; the carry-overflow boundary family of the word-wise equality loop is enumerated, not sampled",
         "trusts num-bigint comparison/multiplication for the model; build-profile independence is checked for release vs overflow-checks+debug-assertions only", "DESIGN.md section 5 C02"),
}

TITLES = {}
for line in open('/verif/properties.jsonl'):
    p = json.loads(line)
    TITLES[p["id"]] = p["title"]

checks = []
na = []
for pid in sorted(TITLES):
    if pid in BUILT:
        tech, text, note, ref = BUILT[pid]
        checks.append({
            "property_id": pid,
            "quick_cmd": "./check %s quick" % pid,
            "thorough_cmd": "./check %s thorough" % pid,
            "evidence_file": "/verif/evidence/%s.json" % pid,
            "replay_cmd_template": "./check %s --replay {path}" % pid,
            "engine": "bdverif",
            "level_claimed": {"category": "exploration", "text": text, "design_ref": ref},
            "level_note": note,
            "technique": tech,
        })
    else:
        na.append({"property_id": pid, "reason": "monitor not built yet in this round (planned in DESIGN.md section 5; runtime monitoring applies)"})

manifest = {
 "version": 1,
 "setup_cmd": "./check --setup",
 "hooks": {
  "guard": "bigdecimal_verif",
  "enable": "RUSTFLAGS=\"--cfg bigdecimal_verif\" is set by ./check for every harness build; the harness crate path-depends on /repo, so each check rebuilds /repo's working tree with the hooks on",
  "baseline_off_cmd": "cd /repo && cargo test --workspace --no-fail-fast --offline",
  "source_commits": HOOK_COMMITS,
  "add_only": True,
 },
 "engines": [
  {"name": "bdverif", "path": "/verif/harness", "serves_properties": sorted(BUILT),
   "kind_free_text": "Rust harness binary: seeded/enumerated workloads -> real crate (release build and overflow-checks+debug-assertions build, hooks on) -> in-process reference-model monitors -> result files; python driver ./check classifies, compares profiles, re-checks a sampled event log offline, writes evidence"},
 ],
 "checks": checks,
 "not_applicable": na,
 "notes": "Runtime monitoring only: every verdict is 'held on the executions observed' or a witness. Exit 0 held / 1 VIOLATION / 2 INCONCLUSIVE. Known findings: /verif/known_findings.json.",
}
json.dump(manifest, open('/verif/MANIFEST.json', 'w'), indent=1)
print("wrote MANIFEST.json: %d checks, %d not_applicable" % (len(checks), len(na)))

use exp::*;
use std::panic::catch_unwind;
use std::cmp::Ordering::*;
use std::str::FromStr;
use std::hash::{Hash, Hasher};

struct Rec(Vec<u8>);
impl Hasher for Rec { fn finish(&self) -> u64 { 0 } fn write(&mut self, b: &[u8]) { self.0.extend_from_slice(b); self.0.push(0xfe); } }
fn rec(d: &BigDecimal) -> Vec<u8> { let mut h = Rec(vec![]); d.hash(&mut h); h.0 }

fn main() {
    let seed: u64 = std::env::args().nth(1).map(|s| s.parse().unwrap()).unwrap_or(1);
    let n: u64 = std::env::args().nth(2).map(|s| s.parse().unwrap()).unwrap_or(20000);
    let mut r = Rng(seed);
    std::panic::set_hook(Box::new(|_| {}));
    let mut fails = std::collections::BTreeMap::<String, (u64, String)>::new();
    let mut fail = |k: &str, msg: String| { let e = fails.entry(k.to_string()).or_insert((0, msg)); e.0 += 1; };
    for _ in 0..n {
        let a = match r.below(4) { 0 => { let nd = 1 + r.below(40) as usize; let s = rand_digits(&mut r, nd); let i: BigInt = s.parse().unwrap(); BigDecimal::new(if r.below(2)==0 {-i} else {i}, r.range(-40, 60)) }, 1 => BigDecimal::new(BigInt::zero(), r.range(-40,60)), _ => rand_dec(&mut r, 300, 1100) };
        let pa = parts(&a);
        // C04
        let outs: Vec<(&str, Result<String, _>)> = vec![
            ("display", catch_unwind(|| format!("{}", a))),
            ("lowerexp", catch_unwind(|| format!("{:e}", a))),
            ("upperexp", catch_unwind(|| format!("{:E}", a))),
            ("sci", catch_unwind(|| a.to_scientific_notation())),
            ("eng", catch_unwind(|| a.to_engineering_notation())),
            ("plain", catch_unwind(|| a.to_plain_string())),
            ("refdisplay", catch_unwind(|| format!("{}", a.to_ref()))),
        ];
        for (k, o) in outs {
            match o {
                Err(_) => fail(&format!("fmt_panic {}", k), format!("{:?}", pa)),
                Ok(s) => match BigDecimal::from_str(&s) {
                    Err(e) => fail(&format!("fmt_unparseable {}", k), format!("{:?} -> {:?} {:?}", pa, s, e)),
                    Ok(b) => {
                        let pb = parts(&b);
                        if ref_cmp(&pa, &pb) != Equal { fail(&format!("fmt_value {}", k), format!("{:?} -> {:?}", pa, s)); }
                        else if pb != pa && k != "eng" && !(k == "plain" && pa.1 < 0) && !(k == "sci" && pa.0.is_zero()) && !(k.ends_with("display") && (-15..=-1).contains(&pa.1)) { fail(&format!("fmt_scale {} zero={}", k, pa.0.is_zero()), format!("{:?} -> {:?} -> {:?}", pa, s, pb)); }
                        if k.ends_with("display") && s.len() > ref_digits(&pa.0) as usize + 30 { fail("fmt_display_long", format!("{:?} -> {:?}", pa, s)); }
                    }
                }
            }
        }
        // C16
        let np = match r.below(3) { 0 => r.below(10), 1 => r.below(60), _ => r.below(1100) } as usize;
        match catch_unwind(|| format!("{:.*}", np, a)) {
            Err(_) => fail("prec_panic", format!("{:?} N={}", pa, np)),
            Ok(s) => match BigDecimal::from_str(&s) {
                Err(e) => fail("prec_unparseable", format!("{:?} N={} -> {:?} {:?}", pa, np, s, e)),
                Ok(b) => {
                    let want = ref_scale_round(&pa, np as i64, RoundingMode::HalfEven);
                    let pb = parts(&b);
                    if pb != want {
                        // unpadded fallback for integers
                        let fallback = pa.1 <= 0 && ref_cmp(&pb, &pa) == Equal;
                        if !fallback { fail("prec_value", format!("{:?} N={} -> {:?} want {:?}", pa, np, s, want)); }
                        else if ((-pa.1) as usize) + np + 1 <= 1000 && np > 0 || np == 0 && (-pa.1) as usize <= 1000 { fail("prec_fallback_unexpected", format!("{:?} N={} -> {:?}", pa, np, s)); }
                    }
                    // agreement with library
                    let lib = a.with_scale_round(np as i64, RoundingMode::HalfEven);
                    if pb == want && parts(&lib) != pb { fail("prec_vs_lib", format!("{:?} N={}", pa, np)); }
                }
            }
        }
        let np = r.below(60) as usize;
        match catch_unwind(|| format!("{:.*e}", np, a)) {
            Err(_) => fail("precexp_panic", format!("{:?} N={}", pa, np)),
            Ok(s) => match BigDecimal::from_str(&s) {
                Err(e) => fail("precexp_unparseable", format!("{:?} N={} -> {:?} {:?}", pa, np, s, e)),
                Ok(b) => {
                    let nd = ref_digits(&pa.0) as i64;
                    let want = ref_scale_round(&pa, pa.1 + (np as i64 + 1 - nd), RoundingMode::HalfEven);
                    let pb = parts(&b);
                    if ref_cmp(&pb, &want) != Equal { fail("precexp_value", format!("{:?} N={} -> {:?} want {:?}", pa, np, s, want)); }
                    else { let mant = s.split('e').next().unwrap().trim_start_matches('-'); let fd = mant.split('.').nth(1).map(|x| x.len()).unwrap_or(0); if fd != np { fail("precexp_digits", format!("{:?} N={} -> {:?}", pa, np, s)); } }
                }
            }
        }
        // flags
        let w = r.below(50) as usize;
        let plain = format!("{}", a);
        for (k, s) in [("width", format!("{:w$}", a, w = w)), ("plus", format!("{:+}", a)), ("zero", format!("{:0w$}", a, w = w)), ("center", format!("{:*^w$}", a, w = w)), ("left", format!("{:<w$}", a, w = w)), ("pluszero", format!("{:+0w$}", a, w = w))] {
            let core: String = match k { "center" => s.trim_matches('*').to_string(), _ => s.trim().to_string() };
            let core = core.trim_start_matches('+').to_string();
            // zero pad: sign then zeros
            let ok = if k.contains("zero") { let neg = core.starts_with('-'); let body = core.trim_start_matches('-'); let pb = plain.trim_start_matches('-'); body.ends_with(pb) && body[..body.len()-pb.len()].chars().all(|c| c == '0') && neg == plain.starts_with('-') } else { core == plain };
            if !ok { fail(&format!("flag {}", k), format!("{:?} w={} -> {:?} vs {:?}", pa, w, s, plain)); }
            if s.chars().count() < w && k != "plus" { fail(&format!("flag_width {}", k), format!("{:?} w={} -> {:?}", pa, w, s)); }
        }
        // C03: twins
        if pa.1.abs() < 2000 {
            let k = r.below(30);
            let t = BigDecimal::new(&pa.0 * pow10(k), pa.1 + k as i64);
            let nrm = a.normalized();
            match catch_unwind(|| (rec(&a), rec(&t), rec(&nrm))) { Ok((h1, h2, h3)) => if h1 != h2 || h1 != h3 { fail("hash", format!("{:?} k={}", pa, k)); }, Err(_) => fail("hash_panic", format!("{:?}", pa)) }
            let pn = parts(&nrm);
            if ref_cmp(&pn, &pa) != Equal || (!pn.0.is_zero() && (&pn.0 % BigInt::from(10)).is_zero()) || (pn.0.is_zero() && pn.1 != 0) { fail("normalized", format!("{:?} -> {:?}", pa, pn)); }
        }
        // C18
        if a.digits() != ref_digits(&pa.0) { fail("digits", format!("{:?}", pa)); }
        // C15
        let small = match r.below(3) { 0 => { let base: i128 = *r.pick(&[i64::MAX as i128, i64::MIN as i128, u64::MAX as i128, 0i128, i128::MAX, i128::MIN]); let sc = r.range(0, 3); BigDecimal::new(BigInt::from(base) * pow10(sc as u64) + r.range(-25, 25), sc) }, 1 => rand_dec(&mut r, 45, 40), _ => a.clone() };
        let ps = parts(&small);
        let trunc: BigInt = if ps.1 > 0 { &ps.0 / pow10(ps.1 as u64) } else { &ps.0 * pow10((-ps.1) as u64) };
        if small.to_i64() != trunc.to_i64() { fail("to_i64", format!("{:?}", ps)); }
        if small.to_u64() != (if ps.0.is_negative() { None } else { trunc.to_u64() }) { fail("to_u64", format!("{:?}", ps)); }
        if small.to_i128() != trunc.to_i128() { fail("to_i128", format!("{:?} got {:?} want {:?}", ps, small.to_i128(), trunc.to_i128())); }
        if small.to_u128() != (if ps.0.is_negative() { None } else { trunc.to_u128() }) { fail("to_u128", format!("{:?} got {:?} want {:?}", ps, small.to_u128(), trunc.to_u128())); }
        if num_bigint::ToBigInt::to_bigint(&small) != Some(trunc.clone()) { fail("to_bigint", format!("{:?}", ps)); }
        let isint = (&trunc * pow10(ps.1.max(0) as u64)) == (&ps.0 * pow10((-ps.1).max(0) as u64)) ;
        if small.is_integer() != isint { fail("is_integer", format!("{:?}", ps)); }
        // C14
        let bits = r.next(); let f = f64::from_bits(match r.below(4) { 0 => bits & 0x800f_ffff_ffff_ffff, 1 => (bits & 0x800f_ffff_ffff_ffff) | (0x7fe << 52), 2 => (bits & 0x800f_ffff_ffff_ffff) | (1 << 52), _ => bits });
        if f.is_finite() {
            match BigDecimal::try_from(f) { Ok(d) => { 
                let back = d.to_f64().unwrap(); if back != f { fail("f64_roundtrip", format!("{:e} {:x} -> {:e}", f, f.to_bits(), back)); }
                // exactness: compare with reference decomposition
                let b = f.to_bits(); let e = ((b >> 52) & 0x7ff) as i64; let m = b & ((1<<52)-1); let (mant, pw) = if e == 0 { (m, -1074) } else { (m | (1<<52), e - 1075) };
                let mut v = BigInt::from(mant); if (b >> 63) == 1 { v = -v; }
                let refv = if pw >= 0 { (v * BigInt::from(2).pow(pw as u32), 0) } else { (v * BigInt::from(5).pow((-pw) as u32), -pw) };
                if ref_cmp(&parts(&d), &refv) != Equal { fail("f64_exact", format!("{:e}", f)); }
            }, Err(_) => fail("f64_err", format!("{:e}", f)) }
        } else if BigDecimal::try_from(f).is_ok() { fail("f64_nonfinite_ok", format!("{:e}", f)); }
        // to_f64 on arbitrary decimal within normal range
        let t = rand_dec(&mut r, 400, 400);
        let pt = parts(&t);
        match catch_unwind(|| t.to_f64()) { Err(_) => fail("to_f64_panic", format!("{:?}", pt)), Ok(None) => fail("to_f64_none", format!("{:?}", pt)), Ok(Some(g)) => {
            let mag = ref_digits(&pt.0) as i64 - pt.1; // value in [10^(mag-1),10^mag)
            if !pt.0.is_zero() && mag > -300 && mag < 300 {
                if !g.is_finite() || g == 0.0 { fail("to_f64_range", format!("{:?} -> {:e}", pt, g)); } else {
                    let gd = parts(&BigDecimal::try_from(g).unwrap());
                    // |g - t| <= 2^-48 |t|
                    let s = gd.1.max(pt.1); let x = &gd.0 * pow10((s-gd.1) as u64); let y = &pt.0 * pow10((s-pt.1) as u64);
                    if (&x - &y).abs() * BigInt::from(2).pow(48u32) > y.abs() { fail("to_f64_tol", format!("{:?} -> {:e}", pt, g)); }
                    if (g < 0.0) != pt.0.is_negative() { fail("to_f64_sign", format!("{:?} -> {:e}", pt, g)); }
                }
            }
        }}
    }
    for (k, (c, m)) in &fails { let m: String = m.chars().take(300).collect(); println!("{} x{}: {}", k, c, m); }
    println!("done {} fails kinds", fails.len());
}

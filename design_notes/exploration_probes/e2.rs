use exp::*;
use std::panic::catch_unwind;
use std::cmp::Ordering::*;
use std::num::NonZeroU64;
use num_traits::Pow;

/// floor(sqrt or cbrt) of real M = n * 10^k (k may be negative), plus compare of frac part with 0 and 1/2
/// returns (T, exact, half_cmp) where half_cmp = cmp(root - T, 1/2)
fn root_info(n: &BigUint, k: i64, deg: u32) -> (BigUint, bool, std::cmp::Ordering) {
    // M = num/den
    let (num, den) = if k >= 0 { (n * BigUint::from(10u8).pow(k as u32), BigUint::one()) } else { (n.clone(), BigUint::from(10u8).pow((-k) as u32)) };
    let m_floor = &num / &den;
    let t = m_floor.nth_root(deg);
    // verify bracket
    assert!(Pow::pow(&t, deg) <= m_floor && Pow::pow(&(&t + 1u8), deg) > m_floor);
    let exact = Pow::pow(&t, deg) * &den == num;
    // compare root with t + 1/2  <=> M vs (t+1/2)^deg <=> num * 2^deg vs (2t+1)^deg * den
    let lhs = &num * BigUint::from(2u8).pow(deg);
    let rhs = Pow::pow(&(&t * 2u8 + 1u8), deg) * &den;
    (t, exact, lhs.cmp(&rhs))
}

fn expected_root(n: &BigInt, sc: i64, p: u64, mode: RoundingMode, deg: u32) -> (BigInt, i64) {
    // x = n*10^-sc ; |x| in [10^ilog, 10^(ilog+1))
    let mag = n.magnitude();
    let ilog = mag.to_string().len() as i64 - 1 - sc;
    let e = ilog.div_euclid(deg as i64);
    let uexp = e - p as i64 + 1; // unit = 10^uexp
    let k = -sc - (deg as i64) * uexp;
    let (t, exact, half) = root_info(mag, k, deg);
    let neg = n.is_negative();
    use RoundingMode::*;
    let away = if exact { false } else { match mode {
        Up => true, Down => false, Ceiling => !neg, Floor => neg,
        HalfUp => half != Less, HalfDown => half == Greater,
        HalfEven => half == Greater || (half == Equal && t.is_odd()),
    }};
    let t = if away { t + 1u8 } else { t };
    let v = BigInt::from_biguint(if neg { Sign::Minus } else { Sign::Plus }, t);
    (v, -uexp)
}

fn main() {
    let seed: u64 = std::env::args().nth(1).map(|s| s.parse().unwrap()).unwrap_or(1);
    let n: u64 = std::env::args().nth(2).map(|s| s.parse().unwrap()).unwrap_or(20000);
    let mut r = Rng(seed);
    std::panic::set_hook(Box::new(|_| {}));
    let mut fails = std::collections::BTreeMap::<String, (u64, String)>::new();
    let mut fail = |k: &str, msg: String| { let e = fails.entry(k.to_string()).or_insert((0, msg)); e.0 += 1; };
    for it in 0..n {
        let a = rand_dec(&mut r, 300, 400);
        let pa = parts(&a);
        let mode = *r.pick(&MODES);
        let p = match r.below(4) { 0 => 1 + r.below(5), 1 => 100, _ => 1 + r.below(150) };
        let ctx = Context::new(NonZeroU64::new(p).unwrap(), mode);
        let nd = ref_digits(&pa.0);
        let long = nd > 2 * (p + 5);
        // sqrt
        if !a.is_negative() && !a.is_zero() {
            match catch_unwind(|| a.sqrt_with_context(&ctx).unwrap()) {
                Ok(got) => { let want = expected_root(&pa.0, pa.1, p, mode, 2);
                    if ref_cmp(&parts(&got), &want) != Equal {
                        let key = format!("sqrt long={} oddparity={}", long, (nd as i64 - pa.1).rem_euclid(2));
                        fail(&key, format!("{:?} p={} {:?} got {:?} want {:?}", pa, p, mode, parts(&got), want)); } }
                Err(_) => fail("sqrt_panic", format!("{:?} p={} {:?}", pa, p, mode)),
            }
        }
        if !a.is_zero() {
            match catch_unwind(|| a.cbrt_with_context(&ctx)) {
                Ok(got) => { let want = expected_root(&pa.0, pa.1, p, mode, 3);
                    if ref_cmp(&parts(&got), &want) != Equal {
                        fail("cbrt", format!("{:?} p={} {:?} got {:?} want {:?}", pa, p, mode, parts(&got), want)); } }
                Err(_) => fail("cbrt_panic", format!("{:?} p={} {:?}", pa, p, mode)),
            }
            // inverse: |got*x - 1| < unit*|x| ; unit = 10^(e-p+1), e = exponent of 1/x
            match catch_unwind(|| a.inverse_with_context(&ctx)) {
                Ok(got) => {
                    let pg = parts(&got);
                    // 1/x = 10^sc / n ; leading exponent: find e with 10^e <= 10^sc/|n| < 10^(e+1)
                    let mag = BigInt::from(pa.0.magnitude().clone());
                    let d = nd as i64; // |n| in [10^(d-1), 10^d)
                    // 10^sc/|n| in (10^(sc-d), 10^(sc-d+1)]  ; equals 10^(sc-d+1) iff n = 10^(d-1)
                    let e = if mag == pow10((d-1) as u64) { pa.1 - d + 1 } else { pa.1 - d };
                    let uexp = e - p as i64 + 1;
                    // |G*10^-sg * n*10^-sc - 1| < 10^uexp * |n| * 10^-sc
                    // multiply all by 10^(sg+sc): |G*n - 10^(sg+sc)| < |n| * 10^(uexp+sg)
                    let sh = pg.1 + pa.1;
                    let (lhs_a, lhs_b) = (&pg.0 * &pa.0, sh); // G*n vs 10^sh
                    // bring to common: if sh<0 multiply lhs_a by 10^-sh
                    let (x, one) = if lhs_b >= 0 { (lhs_a, pow10(lhs_b as u64)) } else { (lhs_a * pow10((-lhs_b) as u64), BigInt::one()) };
                    let diff = (x - &one).abs();
                    let ush = uexp + pg.1 + (if lhs_b < 0 { -lhs_b } else { 0 });
                    let bound_ok = if ush >= 0 { diff < &mag * pow10(ush as u64) } else { diff * pow10((-ush) as u64) < mag };
                    let signok = pg.0.sign() == pa.0.sign();
                    if !signok { fail("inv_sign", format!("{:?} p={} {:?} got {:?}", pa, p, mode, pg)); }
                    else if !bound_ok { fail(&format!("inv_ulp p<=3:{}", p<=3), format!("{:?} p={} {:?} got {:?}", pa, p, mode, pg)); }
                }
                Err(_) => fail("inv_panic", format!("{:?} p={} {:?}", pa, p, mode)),
            }
        }
        // division
        let b = rand_dec(&mut r, if it % 3 == 0 { 4 } else { 300 }, 400);
        let pb = parts(&b);
        if !b.is_zero() {
            match catch_unwind(|| &a / &b) {
                Ok(got) => {
                    let pg = parts(&got);
                    // compare G*10^-sg * ib*10^-sb  with ia*10^-sa :  G*ib*10^-(sg+sb) vs ia*10^-sa
                    let s1 = pg.1 + pb.1; let s2 = pa.1; let s = s1.max(s2);
                    let lhs = &pg.0 * &pb.0 * pow10((s - s1) as u64);
                    let rhs = &pa.0 * pow10((s - s2) as u64);
                    let ulp_half = pb.0.abs() * pow10((s - s1) as u64); // = |ib| * 1 unit of G, compare 2*diff
                    let diff2: BigInt = (&lhs - &rhs).abs() * 2;
                    let gd = ref_digits(&pg.0);
                    if diff2.is_zero() { /* exact fine */ }
                    else {
                        // exact quotient digits
                        let g = pa.0.gcd(&pb.0);
                        let mut den = (&pb.0 / &g).abs(); let mut num = (&pa.0 / &g).abs();
                        let mut i2 = 0; let mut i5 = 0;
                        while (&den % 2u8).is_zero() { den /= 2; i2 += 1; }
                        while (&den % 5u8).is_zero() { den /= 5; i5 += 1; }
                        let terminating = den.is_one();
                        let mut exact_digits = u64::MAX;
                        if terminating { let m = i2.max(i5); num = num * BigInt::from(2).pow((m - i2) as u32) * BigInt::from(5).pow((m - i5) as u32);
                            let s = num.to_string(); exact_digits = s.trim_end_matches('0').len() as u64; }
                        if exact_digits <= 100 { fail("div_notexact", format!("{:?} / {:?} got {:?}", pa, pb, pg)); }
                        else if gd < 100 { fail("div_short", format!("{:?} / {:?} got {:?}", pa, pb, pg)); }
                        else if diff2 > ulp_half { fail("div_ulp", format!("{:?} / {:?} got {:?}", pa, pb, pg)); }
                        else if diff2 == ulp_half { // tie must be away from zero: |G*ib| > |ia...|
                            if lhs.abs() < rhs.abs() { fail("div_tie", format!("{:?} / {:?} got {:?}", pa, pb, pg)); } }
                        if (pa.0.sign() * pb.0.sign()) != pg.0.sign() && !pg.0.is_zero() { fail("div_sign", format!("{:?} / {:?} got {:?}", pa, pb, pg)); }
                    }
                }
                Err(_) => fail("div_panic", format!("{:?} / {:?}", pa, pb)),
            }
        }
    }
    for (k, (c, m)) in &fails { let m: String = m.chars().take(400).collect(); println!("{} x{}: {}", k, c, m); }
    println!("done {} fails kinds", fails.len());
}

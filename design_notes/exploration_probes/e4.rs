use exp::*;
fn main() {
    let seed: u64 = std::env::args().nth(1).map(|s| s.parse().unwrap()).unwrap_or(1);
    let n: u64 = std::env::args().nth(2).map(|s| s.parse().unwrap()).unwrap_or(2000);
    let maxmag: i64 = std::env::args().nth(3).map(|s| s.parse().unwrap()).unwrap_or(120);
    let mut r = Rng(seed);
    for i in -maxmag..=maxmag { let x = BigDecimal::from(i); let (a,b)=parts(&x.exp()); println!("{}e0 {}e{}", i, a, -b); }
    for _ in 0..n {
        let nd = 1 + r.below(40) as usize;
        let s = rand_digits(&mut r, nd);
        let i: BigInt = s.parse().unwrap();
        let i = if r.below(2) == 0 { -i } else { i };
        // magnitude 1e-60 .. maxmag
        let e = r.range(-60, 3);
        let sc = nd as i64 - 1 - e;
        let x = BigDecimal::new(i, sc);
        // skip if |x| > maxmag
        if x.abs() > BigDecimal::from(maxmag) { continue; }
        let (a, b) = parts(&x.exp());
        let (xi, xs) = parts(&x);
        println!("{}e{} {}e{}", xi, -xs, a, -b);
    }
}

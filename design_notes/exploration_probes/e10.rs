use exp::*;
use std::cmp::Ordering::{self, *};
use std::panic::{catch_unwind, AssertUnwindSafe};
use std::str::FromStr;
use std::num::NonZeroU64;
fn digits_of(n: &BigInt) -> i128 { if n.is_zero() { 1 } else { n.magnitude().to_string().len() as i128 } }
fn smart_cmp(a: &(BigInt, i64), b: &(BigInt, i64)) -> Ordering {
    let (sa, sb) = (a.0.sign(), b.0.sign());
    if sa != sb { return sa.cmp(&sb); }
    if sa == Sign::NoSign { return Equal; }
    let (ea, eb) = (digits_of(&a.0) - a.1 as i128, digits_of(&b.0) - b.1 as i128);
    let mag = if ea != eb { ea.cmp(&eb) } else { ref_cmp(&(a.0.abs(), a.1), &(b.0.abs(), b.1)) };
    if sa == Sign::Minus { mag.reverse() } else { mag }
}
fn main() {
    std::panic::set_hook(Box::new(|_| {}));
    let mut r = Rng(std::env::args().nth(1).map(|s| s.parse().unwrap()).unwrap_or(1));
    let mut fails = std::collections::BTreeMap::<String, (u64, String)>::new();
    let mut fail = |k: &str, msg: String| { let e = fails.entry(k.to_string()).or_insert((0, msg)); e.0 += 1; };
    // --- C02 boundary limbs
    let mut npairs = 0u64;
    for k in 1..=19u32 {
        let p = 10u128.pow(k);
        let bases: Vec<u128> = vec![(1u128 << 64) / p, (1u128 << 32) / p, ((1u128 << 64) - 1) / p, (1u128<<63)/p];
        for &base in &bases { for off in -2i128..=2 { let w = (base as i128 + off).max(1) as u128; let w32 = (w & 0xffff_ffff) as u32;
            for limbs in 1..=5usize { for variant in 0..4 {
                let mut v = vec![w32; limbs]; if variant == 1 { v[0] = w32.wrapping_add(1); } if variant == 2 { let l = limbs - 1; v[l] = (w >> 32) as u32 | 1; } if variant == 3 { v[0] = u32::MAX; }
                let x = BigUint::new(v);
                if x.is_zero() { continue; }
                let y = &x * BigUint::from(10u8).pow(k);
                for d in [-1i32, 0, 1] {
                    let yy = if d < 0 { &y - 1u8 } else if d > 0 { &y + 1u8 } else { y.clone() };
                    for neg in [false, true] {
                        let sc = r.range(-30, 30);
                        let a = BigDecimal::new(BigInt::from_biguint(if neg {Sign::Minus} else {Sign::Plus}, x.clone()), sc);
                        let b = BigDecimal::new(BigInt::from_biguint(if neg {Sign::Minus} else {Sign::Plus}, yy.clone()), sc + k as i64);
                        npairs += 1;
                        let want = smart_cmp(&parts(&a), &parts(&b));
                        for (l, rr, w) in [(&a, &b, want), (&b, &a, want.reverse())] {
                            match catch_unwind(|| (l == rr, l.cmp(rr), l.to_ref() == rr.to_ref(), l.to_ref().cmp(&rr.to_ref()))) {
                                Ok((e, c, e2, c2)) => { if c != w || c2 != w { fail("cmp_boundary", format!("{:?} {:?}", parts(l), parts(rr))); } if e != (w == Equal) || e2 != e { fail("eq_boundary", format!("{:?} {:?}", parts(l), parts(rr))); } }
                                Err(_) => fail("panic_boundary", format!("{:?} {:?}", parts(l), parts(rr))),
                            }
                        }
                    }
                }
            }}
        }}
    }
    println!("boundary pairs {}", npairs);
    // --- C02 giant scale differences
    for _ in 0..20000 {
        let a = BigDecimal::new(rand_int(&mut r, 40), *r.pick(&[i64::MAX, i64::MIN, i64::MAX - 1, i64::MIN + 1, 0, 1 << 62, -(1 << 62), 1_000_000_000_000_000, -1_000_000_000_000_000]));
        let b = BigDecimal::new(rand_int(&mut r, 40), *r.pick(&[i64::MAX, i64::MIN, i64::MAX - 1, i64::MIN + 1, 0, 1 << 62, -(1 << 62), 1_000_000_000_000_000, -1_000_000_000_000_000]));
        let (pa, pb) = (parts(&a), parts(&b));
        // skip if equal adjusted exponents with huge diff (needs alignment)
        let want = if (digits_of(&pa.0) - pa.1 as i128) == (digits_of(&pb.0) - pb.1 as i128) && pa.1 != pb.1 && (pa.1 as i128 - pb.1 as i128).abs() > 100000 { continue } else { smart_cmp(&pa, &pb) };
        match catch_unwind(|| (a == b, a.cmp(&b))) { Ok((e, c)) => { if c != want { fail("cmp_giant", format!("{:?} {:?} got {:?} want {:?}", pa, pb, c, want)); } if e != (want == Equal) { fail("eq_giant", format!("{:?} {:?}", pa, pb)); } }, Err(_) => fail("panic_giant", format!("{:?} {:?}", pa, pb)) }
    }
    // --- C04 wide scales
    for _ in 0..20000 {
        let a = BigDecimal::new(if r.below(8)==0 {BigInt::zero()} else {rand_int(&mut r, 60)}, match r.below(3) { 0 => r.range(-1_000_000_000_000_000, 1_000_000_000_000_000), 1 => *r.pick(&[i64::MAX, i64::MIN, i64::MAX-1, i64::MIN+1]), _ => r.range(-100000, 100000) });
        let pa = parts(&a);
        for (k, o) in [("display", catch_unwind(|| format!("{}", a))), ("lowerexp", catch_unwind(|| format!("{:e}", a))), ("sci", catch_unwind(|| a.to_scientific_notation())), ("eng", catch_unwind(|| a.to_engineering_notation()))] {
            match o { Err(_) => fail(&format!("wide_fmt_panic {}", k), format!("{:?}", pa)), Ok(s) => match BigDecimal::from_str(&s) { Err(e) => fail(&format!("wide_unparse {}", k), format!("{:?} {} {:?}", pa, s, e)), Ok(b) => { let pb = parts(&b); if smart_cmp(&pa, &pb) != Equal { fail(&format!("wide_value {}", k), format!("{:?} {} {:?}", pa, s, pb)); } else if pb != pa && k != "eng" && !(k=="sci" && pa.0.is_zero()) && !(k=="display" && (-15..=-1).contains(&pa.1)) { fail(&format!("wide_scale {}", k), format!("{:?} {} {:?}", pa, s, pb)); } } } }
        }
    }
    // --- C08 zero divisor matrix + primitive agreement
    let a = BigDecimal::from_str("123.456").unwrap(); let z = BigDecimal::new(BigInt::zero(), 3);
    macro_rules! must_panic { ($name:expr, $e:expr) => { match catch_unwind(AssertUnwindSafe(|| $e)) { Ok(v) => fail(&format!("zero_div_no_panic {}", $name), format!("-> {:?}", parts(&v))), Err(_) => {} } } }
    must_panic!("D/D", a.clone() / z.clone()); must_panic!("D/&D", a.clone() / &z); must_panic!("&D/D", &a / z.clone()); must_panic!("&D/&D", &a / &z);
    macro_rules! zprim { ($($t:ty),*) => { $( { let zero: $t = 0; let one: $t = 1; let two: $t = 2; let t = stringify!($t);
        must_panic!(format!("D/{}", t), a.clone() / zero); must_panic!(format!("&D/{}", t), &a / zero); must_panic!(format!("D/&{}", t), a.clone() / &zero);
        must_panic!(format!("{}/D", t), one / z.clone()); must_panic!(format!("{}/&D", t), one / &z); must_panic!(format!("{}/D two", t), two / z.clone()); must_panic!(format!("&{}/D", t), &one / z.clone()); must_panic!(format!("&{}/&D", t), &two / &z);
        must_panic!(format!("D/={}", t), { let mut x = a.clone(); x /= zero; x }); must_panic!(format!("D/=&{}", t), { let mut x = a.clone(); x /= &zero; x });
    } )* } }
    zprim!(u8, u16, u32, u64, u128, i8, i16, i32, i64, i128);
    must_panic!("1.0f64/D", 1.0f64 / z.clone()); must_panic!("1.0f32/&D", 1.0f32 / &z); must_panic!("2.5f64/D", 2.5f64 / z.clone());
    for _ in 0..5000 {
        let a = rand_dec(&mut r, 60, 40);
        macro_rules! dprim { ($($t:ty),*) => { $( { let p: $t = match r.below(6) { 0 => 1, 1 => 2, 2 => 3, 3 => <$t>::MAX, 4 => <$t>::MIN, _ => r.next() as $t }; if p != 0 {
            let via = if p == 2 { Some(a.half()) } else if BigInt::from(p) == BigInt::from(-2) { Some(-a.half()) } else { Some(a.clone() / BigDecimal::from(p)) };
            let got = a.clone() / p; let got2 = &a / p; let mut got3 = a.clone(); got3 /= p;
            let v = via.unwrap();
            if parts(&got) != parts(&v) && got != v { fail(&format!("div_prim {}", stringify!($t)), format!("{:?} / {}", parts(&a), p)); }
            if got2 != v { fail(&format!("div_prim_ref {}", stringify!($t)), format!("{:?} / {}", parts(&a), p)); }
            if got3 != v && p != 2 { fail(&format!("div_assign_prim {}", stringify!($t)), format!("{:?} /= {} got {:?} want {:?}", parts(&a), p, parts(&got3), parts(&v))); }
            if !a.is_zero() && BigInt::from(p) != BigInt::one() { let q = p / a.clone(); let w = BigDecimal::from(p) / a.clone(); if q != w { fail(&format!("prim_div {}", stringify!($t)), format!("{} / {:?}", p, parts(&a))); } }
        } } )* } }
        dprim!(u8, u16, u32, u64, u128, i8, i16, i32, i64, i128);
        let f = f64::from_bits(r.next()); if f.is_normal() { let got = a.clone() / f; let w = if f == 2.0 { a.half() } else if f == -2.0 { -a.half() } else { a.clone() / BigDecimal::try_from(f).unwrap() }; if got != w { fail("div_f64", format!("{:?} / {:e}", parts(&a), f)); } }
    }
    // --- C12 huge bit lengths (fallback guess) + iteration sanity
    for bits in [1000u32, 1070, 1074, 1075, 1080, 2000, 5000] { for sc in [-2000i64, 0, 2000] {
        let x = BigDecimal::new(BigInt::from(2).pow(bits) + 12345, sc);
        for p in [1u64, 5, 100] { let ctx = Context::new(NonZeroU64::new(p).unwrap(), RoundingMode::HalfEven);
            let t = std::time::Instant::now();
            let got = x.inverse_with_context(&ctx);
            // check |got*x - 1| < 10^(1-p) roughly
            let prod = &got * &x; let err = (prod - BigDecimal::from(1)).abs();
            if err > BigDecimal::new(BigInt::from(1), p as i64 - 1) { fail("inv_bigbits", format!("bits={} sc={} p={} err={:e}", bits, sc, p, err)); }
            if t.elapsed().as_millis() > 2000 { fail("inv_slow", format!("bits={} p={} {:?}", bits, p, t.elapsed())); }
        } } }
    // --- C03 zeros wide
    use std::hash::{Hash, Hasher};
    struct Rec(Vec<u8>); impl Hasher for Rec { fn finish(&self) -> u64 { 0 } fn write(&mut self, b: &[u8]) { self.0.extend_from_slice(b); self.0.push(0xfe); } }
    let h = |d: &BigDecimal| { let mut r = Rec(vec![]); d.hash(&mut r); r.0 };
    let z0 = h(&BigDecimal::from(0));
    for sc in [-100000i64, -16, -15, -1, 0, 1, 15, 16, 100000] { let z = BigDecimal::new(BigInt::zero(), sc); if h(&z) != z0 { fail("hash_zero", format!("{}", sc)); } let n = BigDecimal::new(BigInt::from(0) * -1, sc); if h(&n) != z0 { fail("hash_negzero", format!("{}", sc)); } }
    for _ in 0..3000 { let i = rand_int(&mut r, 30); let sc = r.range(-100000, 100000); let a = BigDecimal::new(i.clone(), sc); let k = r.below(50); let b = BigDecimal::new(&i * pow10(k), sc + k as i64); if h(&a) != h(&b) { fail("hash_wide", format!("{:?} k={}", parts(&a), k)); } let c = a.normalized(); if h(&a) != h(&c) { fail("hash_norm", format!("{:?}", parts(&a))); } }
    for (k, (c, m)) in &fails { let m: String = m.chars().take(300).collect(); println!("{} x{}: {}", k, c, m); }
    println!("done {} fails kinds", fails.len());
}

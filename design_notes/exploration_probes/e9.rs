use exp::*;
use std::cmp::Ordering::*;
use std::panic::{catch_unwind, AssertUnwindSafe};
fn val_eq(x: &BigDecimal, w: &(BigInt, i64)) -> bool { ref_cmp(&parts(x), w) == Equal }
fn main() {
    let seed: u64 = std::env::args().nth(1).map(|s| s.parse().unwrap()).unwrap_or(1);
    let n: u64 = std::env::args().nth(2).map(|s| s.parse().unwrap()).unwrap_or(20000);
    let mut r = Rng(seed);
    std::panic::set_hook(Box::new(|_| {}));
    let mut fails = std::collections::BTreeMap::<String, (u64, String)>::new();
    let mut count = 0u64;
    macro_rules! chk { ($name:expr, $e:expr, $want:expr, $ctx:expr) => {{ count += 1; match catch_unwind(AssertUnwindSafe(|| $e)) { Ok(v) => if !val_eq(&v, &$want) { let e = fails.entry($name.to_string()).or_insert((0, format!("{} got {:?} want {:?}", $ctx, parts(&v), $want))); e.0 += 1; }, Err(_) => { let e = fails.entry(format!("{} PANIC", $name)).or_insert((0, $ctx.clone())); e.0 += 1; } } }}; }
    macro_rules! chk_assign { ($name:expr, $a:expr, $op:tt, $rhs:expr, $want:expr, $ctx:expr) => {{ chk!($name, { let mut t = $a.clone(); t $op $rhs; t }, $want, $ctx) }}; }
    for _ in 0..n {
        let a = match r.below(6) { 0 => BigDecimal::new(BigInt::zero(), r.range(-30, 30)), 1 => BigDecimal::new(pow10(r.below(25)), r.below(25) as i64), _ => rand_dec(&mut r, 80, 60) };
        let b = match r.below(6) { 0 => BigDecimal::new(BigInt::zero(), r.range(-30, 30)), 1 => { let k = r.below(25); BigDecimal::new(pow10(k), k as i64) }, _ => rand_dec(&mut r, 80, 60) };
        let (pa, pb) = (parts(&a), parts(&b));
        let s = pa.1.max(pb.1);
        let xa = &pa.0 * pow10((s - pa.1) as u64); let xb = &pb.0 * pow10((s - pb.1) as u64);
        let sum = (&xa + &xb, s); let dif = (&xa - &xb, s); let prd = (&pa.0 * &pb.0, pa.1 + pb.1);
        let ctx = format!("{:?} {:?}", pa, pb);
        // decimal forms
        chk!("add D D", a.clone() + b.clone(), sum, ctx); chk!("add D &D", a.clone() + &b, sum, ctx); chk!("add &D D", &a + b.clone(), sum, ctx); chk!("add &D &D", &a + &b, sum, ctx);
        chk!("add R D", a.to_ref() + b.clone(), sum, ctx); chk!("add R &D", a.to_ref() + &b, sum, ctx); chk!("add R R", a.to_ref() + b.to_ref(), sum, ctx); chk!("add D R", a.clone() + b.to_ref(), sum, ctx); chk!("add &D R", &a + b.to_ref(), sum, ctx);
        chk!("sub D D", a.clone() - b.clone(), dif, ctx); chk!("sub D &D", a.clone() - &b, dif, ctx); chk!("sub &D D", &a - b.clone(), dif, ctx); chk!("sub &D &D", &a - &b, dif, ctx);
        chk!("sub R D", a.to_ref() - b.clone(), dif, ctx); chk!("sub R &D", a.to_ref() - &b, dif, ctx); chk!("sub R R", a.to_ref() - b.to_ref(), dif, ctx); chk!("sub D R", a.clone() - b.to_ref(), dif, ctx); chk!("sub &D R", &a - b.to_ref(), dif, ctx);
        chk!("mul D D", a.clone() * b.clone(), prd, ctx); chk!("mul D &D", a.clone() * &b, prd, ctx); chk!("mul &D D", &a * b.clone(), prd, ctx); chk!("mul &D &D", &a * &b, prd, ctx);
        chk_assign!("add= D", a, +=, b.clone(), sum, ctx); chk_assign!("add= &D", a, +=, &b, sum, ctx); chk_assign!("add= R", a, +=, b.to_ref(), sum, ctx);
        chk_assign!("sub= D", a, -=, b.clone(), dif, ctx); chk_assign!("sub= &D", a, -=, &b, dif, ctx); chk_assign!("sub= R", a, -=, b.to_ref(), dif, ctx);
        chk_assign!("mul= D", a, *=, b.clone(), prd, ctx); chk_assign!("mul= &D", a, *=, &b, prd, ctx);
        // BigInt forms
        let bi = if r.below(5) == 0 { BigInt::from(r.range(-2, 2)) } else { rand_int(&mut r, 60) };
        let pbi = (bi.clone(), 0i64);
        let s = pa.1.max(0); let xa = &pa.0 * pow10((s - pa.1) as u64); let xb = &bi * pow10(s as u64);
        let sum = (&xa + &xb, s); let dif = (&xa - &xb, s); let rdif = (&xb - &xa, s); let prd = (&pa.0 * &bi, pa.1);
        let ctx = format!("{:?} {:?}", pa, pbi);
        chk!("add D I", a.clone() + bi.clone(), sum, ctx); chk!("add &D I", &a + bi.clone(), sum, ctx); chk!("add R I", a.to_ref() + bi.clone(), sum, ctx); chk!("add D &I", a.clone() + &bi, sum, ctx); chk!("add &D &I", &a + &bi, sum, ctx); chk!("add R &I", a.to_ref() + &bi, sum, ctx);
        chk!("add I D", bi.clone() + a.clone(), sum, ctx); chk!("add I &D", bi.clone() + &a, sum, ctx); chk!("add I R", bi.clone() + a.to_ref(), sum, ctx); chk!("add &I D", &bi + a.clone(), sum, ctx); chk!("add &I &D", &bi + &a, sum, ctx); chk!("add &I R", &bi + a.to_ref(), sum, ctx);
        chk!("sub D I", a.clone() - bi.clone(), dif, ctx); chk!("sub &D I", &a - bi.clone(), dif, ctx); chk!("sub R I", a.to_ref() - bi.clone(), dif, ctx); chk!("sub D &I", a.clone() - &bi, dif, ctx); chk!("sub &D &I", &a - &bi, dif, ctx); chk!("sub R &I", a.to_ref() - &bi, dif, ctx);
        chk!("sub I D", bi.clone() - a.clone(), rdif, ctx); chk!("sub &I D", &bi - a.clone(), rdif, ctx); chk!("sub I R", bi.clone() - a.to_ref(), rdif, ctx); chk!("sub &I R", &bi - a.to_ref(), rdif, ctx);
        chk!("mul D I", a.clone() * bi.clone(), prd, ctx); chk!("mul D &I", a.clone() * &bi, prd, ctx); chk!("mul &D I", &a * bi.clone(), prd, ctx); chk!("mul &D &I", &a * &bi, prd, ctx);
        chk!("mul I D", bi.clone() * a.clone(), prd, ctx); chk!("mul &I D", &bi * a.clone(), prd, ctx); chk!("mul &I &D", &bi * &a, prd, ctx); chk!("mul I &D", bi.clone() * &a, prd, ctx);
        chk_assign!("add= I", a, +=, bi.clone(), sum, ctx); chk_assign!("add= &I", a, +=, &bi, sum, ctx); chk_assign!("sub= I", a, -=, bi.clone(), dif, ctx); chk_assign!("sub= &I", a, -=, &bi, dif, ctx); chk_assign!("mul= I", a, *=, bi.clone(), prd, ctx); chk_assign!("mul= &I", a, *=, &bi, prd, ctx);
        // primitives
        macro_rules! prim { ($($t:ty),*) => { $( {
            let p: $t = match r.below(6) { 0 => 0, 1 => 1, 2 => 2, 3 => <$t>::MAX, 4 => <$t>::MIN, _ => r.next() as $t };
            let bi = BigInt::from(p);
            let s = pa.1.max(0); let xa = &pa.0 * pow10((s - pa.1) as u64); let xb = &bi * pow10(s as u64);
            let sum = (&xa + &xb, s); let dif = (&xa - &xb, s); let rdif = (&xb - &xa, s); let prd = (&pa.0 * &bi, pa.1);
            let ctx = format!("{:?} {}{}", pa, p, stringify!($t));
            let t = stringify!($t);
            chk!(format!("add D {}", t), a.clone() + p, sum, ctx); chk!(format!("add &D {}", t), &a + p, sum, ctx); chk!(format!("add R {}", t), a.to_ref() + p, sum, ctx); chk!(format!("add {} D", t), p + a.clone(), sum, ctx); chk!(format!("add {} &D", t), p + &a, sum, ctx);
            chk!(format!("sub D {}", t), a.clone() - p, dif, ctx); chk!(format!("sub &D {}", t), &a - p, dif, ctx); chk!(format!("sub {} D", t), p - a.clone(), rdif, ctx); chk!(format!("sub {} &D", t), p - &a, rdif, ctx);
            chk!(format!("mul D {}", t), a.clone() * p, prd, ctx); chk!(format!("mul &D {}", t), &a * p, prd, ctx); chk!(format!("mul {} D", t), p * a.clone(), prd, ctx); chk!(format!("mul {} &D", t), p * &a, prd, ctx);
            chk_assign!(format!("add= {}", t), a, +=, p, sum, ctx); chk_assign!(format!("add= &{}", t), a, +=, &p, sum, ctx); chk_assign!(format!("sub= {}", t), a, -=, p, dif, ctx); chk_assign!(format!("sub= &{}", t), a, -=, &p, dif, ctx); chk_assign!(format!("mul= {}", t), a, *=, p, prd, ctx);
        } )* } }
        prim!(u8, u16, u32, u64, u128, i8, i16, i32, i64, i128);
        // derived
        chk!("double", a.double(), (&pa.0 * 2, pa.1), ctx); chk!("half", a.half(), (&pa.0 * 5, pa.1 + 1), ctx); chk!("square", a.square(), (&pa.0 * &pa.0, pa.1 * 2), ctx); chk!("cube", a.cube(), (&pa.0 * &pa.0 * &pa.0, pa.1 * 3), ctx);
        chk!("neg", -a.clone(), (-&pa.0, pa.1), ctx); chk!("neg&", -&a, (-&pa.0, pa.1), ctx); chk!("negR", (-a.to_ref()).to_owned(), (-&pa.0, pa.1), ctx); chk!("abs", a.abs(), (pa.0.abs(), pa.1), ctx);
    }
    println!("checks {}", count);
    for (k, (c, m)) in &fails { let m: String = m.chars().take(300).collect(); println!("{} x{}: {}", k, c, m); }
    println!("done {} fails kinds", fails.len());
}

use exp::*;
use std::cmp::Ordering::*;
use std::panic::{catch_unwind, AssertUnwindSafe};
use std::hash::{Hash, Hasher};
struct Rec(Vec<u8>); impl Hasher for Rec { fn finish(&self) -> u64 { 0 } fn write(&mut self, b: &[u8]) { self.0.extend_from_slice(b); self.0.push(0xfe); } }
fn h(d: &BigDecimal) -> Vec<u8> { let mut r = Rec(vec![]); d.hash(&mut r); r.0 }
fn main() {
    std::panic::set_hook(Box::new(|_| {}));
    let mut r = Rng(std::env::args().nth(1).map(|s| s.parse().unwrap()).unwrap_or(1));
    let nprog: u64 = std::env::args().nth(2).map(|s| s.parse().unwrap()).unwrap_or(20000);
    let mut fails = std::collections::BTreeMap::<String, (u64, String)>::new();
    let mut steps = 0u64;
    let t0 = std::time::Instant::now();
    // C19
    for _ in 0..nprog {
        let mut pool: Vec<BigDecimal> = vec![BigDecimal::new(BigInt::zero(), r.range(-20, 20)), BigDecimal::new(pow10(3), 3), BigDecimal::new(BigInt::one(), 0), BigDecimal::new(pow10(r.below(30)), r.range(-30, 30))];
        for _ in 0..3 { pool.push(rand_dec(&mut r, 40, 30)); }
        let t = pool[6].clone(); let pt = parts(&t); pool.push(BigDecimal::new(&pt.0 * pow10(7), pt.1 + 7));
        let mut acc = pool[r.below(pool.len() as u64) as usize].clone();
        let mut model: (BigInt, i64) = parts(&acc);
        let len = 1 + r.below(40);
        let mut trace = vec![format!("init {:?}", model)];
        for _ in 0..len {
            steps += 1;
            let b = pool[r.below(pool.len() as u64) as usize].clone(); let pb = parts(&b);
            let op = r.below(16); let form = r.below(6);
            let align = |m: &(BigInt, i64), o: &(BigInt, i64)| { let s = m.1.max(o.1); (&m.0 * pow10((s - m.1) as u64), &o.0 * pow10((s - o.1) as u64), s) };
            let res = catch_unwind(AssertUnwindSafe(|| { let mut a = acc.clone(); match op {
                0 => { match form { 0 => a + b.clone(), 1 => a + &b, 2 => &a + b.clone(), 3 => &a + &b, 4 => { a += b.clone(); a }, _ => { a += b.to_ref(); a } } }
                1 => { match form { 0 => a - b.clone(), 1 => a - &b, 2 => &a - b.clone(), 3 => a.to_ref() - b.clone(), 4 => { a -= b.clone(); a }, _ => { a -= &b; a } } }
                2 => { match form { 0 => a * b.clone(), 1 => a * &b, 2 => &a * b.clone(), 3 => &a * &b, 4 => { a *= b.clone(); a }, _ => { a *= &b; a } } }
                3 => -a, 4 => a.abs(), 5 => a.double(), 6 => a.half(),
                7 => a.with_scale(a.fractional_digit_count() + 3), 8 => a.normalized(), 9 => a.to_ref().to_owned(),
                10 => vec![a, b.clone(), b.clone()].into_iter().sum(),
                11 => { let p = (form as i32) - 2; match form % 3 { 0 => a + p, 1 => { a += p; a }, _ => p + a } }
                12 => { let p = (form as i64) - 2; match form % 3 { 0 => a * p, 1 => { a *= p; a }, _ => p * a } }
                13 => { let i = BigInt::from(form as i64 - 2); match form % 3 { 0 => a * i, 1 => { a *= i; a }, _ => i * a } }
                14 => { let p = (form as i16) - 2; match form % 3 { 0 => a - p, 1 => { a -= p; a }, _ => p - a } }
                _ => if a.digits() < 300 { a.square() } else { a },
            } }));
            model = match op {
                0 => { let (x, y, s) = align(&model, &pb); (x + y, s) }, 1 => { let (x, y, s) = align(&model, &pb); (x - y, s) }, 2 => (&model.0 * &pb.0, model.1 + pb.1),
                3 => (-&model.0, model.1), 4 => (model.0.abs(), model.1), 5 => (&model.0 * 2, model.1), 6 => (&model.0 * 5, model.1 + 1), 7 | 8 | 9 => model.clone(),
                10 => { let (x, y, s) = align(&model, &pb); (x + &y + &y, s) }
                11 => { let o = (BigInt::from(form as i32 - 2), 0); let (x, y, s) = align(&model, &o); (x + y, s) }
                12 | 13 => (&model.0 * BigInt::from(form as i64 - 2), model.1),
                14 => { let o = (BigInt::from(form as i64 - 2), 0); let (x, y, s) = align(&model, &o); if form % 3 == 2 { (y - x, s) } else { (x - y, s) } }
                _ => if ref_digits(&parts(&acc).0) < 300 { (&model.0 * &model.0, model.1 * 2) } else { model.clone() },
            };
            trace.push(format!("op{} form{} b={:?}", op, form, pb));
            match res { Err(_) => { fails.entry(format!("panic op{}", op)).or_insert((0, trace.join("; "))).0 += 1; break; }
                Ok(v) => { acc = v; if ref_cmp(&parts(&acc), &model) != Equal { fails.entry(format!("value op{} form{}", op, form)).or_insert((0, trace.join("; "))).0 += 1; break; }
                    let fresh = BigDecimal::new(model.0.clone(), model.1);
                    if !(acc == fresh) || acc.cmp(&fresh) != Equal || (model.1.abs() < 5000 && h(&acc) != h(&fresh)) { fails.entry("inflight eq/cmp/hash".into()).or_insert((0, trace.join("; "))).0 += 1; break; } } }
        }
    }
    println!("C19 steps {} in {:?}", steps, t0.elapsed());
    // timing: C18 powers of ten
    let t0 = std::time::Instant::now(); let mut bad = 0;
    let mut p = BigInt::one();
    for k in 0..=5000u64 { for d in [-1i32, 0, 1] { let n = &p + d; if n.is_zero() { continue; } let want = n.to_string().len() as u64; let x = BigDecimal::new(n.clone(), 0); if x.digits() != want { bad += 1; } }
        let one = BigDecimal::new(BigInt::from(7), 0).with_scale(k as i64); if parts(&one) != (&p * 7, k as i64) { bad += 1; }
        p *= 10; }
    println!("C18 powers bad={} in {:?}", bad, t0.elapsed());
    // timing: C06 exhaustive small
    let t0 = std::time::Instant::now(); let mut cnt = 0u64; let mut bad = 0u64;
    for n in -2000i64..2000 { for sc in -3i64..=8 { let a = BigDecimal::new(BigInt::from(n), sc); let pa = (BigInt::from(n), sc); let nd = ref_digits(&pa.0) as i64;
        for ns in (sc - nd - 4)..=(sc + 4) { for m in MODES { cnt += 1; let got = a.with_scale_round(ns, m); if parts(&got) != ref_scale_round(&pa, ns, m) { bad += 1; } } } } }
    println!("C06 exhaustive |n|<2000: {} cases bad={} in {:?}", cnt, bad, t0.elapsed());
    // timing: f32 exhaustive slice
    let t0 = std::time::Instant::now(); let mut cnt = 0u64; let mut bad = 0u64;
    let pow5: Vec<BigInt> = (0..200u32).map(|k| BigInt::from(5).pow(k)).collect(); let pow2: Vec<BigInt> = (0..200u32).map(|k| BigInt::from(2).pow(k)).collect();
    for hi in (0..=0xffffu32).step_by(1) { for lo in [0u32, 1, 0x7fff, 0x8000, 0xffff, 0x1234, 0xfffe, 0x5555] { let bits = (hi << 16) | lo; let f = f32::from_bits(bits); if !f.is_finite() { continue; } cnt += 1;
        let d = BigDecimal::try_from(f).unwrap(); let e = ((bits >> 23) & 0xff) as i32; let m = bits & 0x7fffff; let (mant, pw) = if e == 0 { (m, -149) } else { (m | 0x800000, e - 150) };
        let mut v = BigInt::from(mant); if bits >> 31 == 1 { v = -v; }
        let refv = if pw >= 0 { (v * &pow2[pw as usize], 0i64) } else { (v * &pow5[(-pw) as usize], (-pw) as i64) };
        let pd = parts(&d); let s = pd.1.max(refv.1);
        if pd.1 > refv.1 { bad += 1; continue; }
        if &pd.0 * pow10((s - pd.1) as u64) != refv.0 { bad += 1; }
        if d.to_f64().unwrap() != f as f64 && !(f == 0.0) { bad += 1; }
    } }
    println!("f32 slice: {} cases bad={} in {:?} => {:.2} us/case", cnt, bad, t0.elapsed(), t0.elapsed().as_secs_f64() * 1e6 / cnt as f64);
    for (k, (c, m)) in &fails { let m: String = m.chars().take(600).collect(); println!("{} x{}: {}", k, c, m); }
    println!("done {} fails kinds", fails.len());
}

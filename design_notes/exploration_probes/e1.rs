use exp::*;
use std::panic::catch_unwind;
fn main() {
    let seed: u64 = std::env::args().nth(1).map(|s| s.parse().unwrap()).unwrap_or(1);
    let n: u64 = std::env::args().nth(2).map(|s| s.parse().unwrap()).unwrap_or(20000);
    let mut r = Rng(seed);
    std::panic::set_hook(Box::new(|_| {}));
    let mut fails = std::collections::BTreeMap::<String, (u64, String)>::new();
    let mut fail = |k: &str, msg: String| { let e = fails.entry(k.to_string()).or_insert((0, msg)); e.0 += 1; };
    for _ in 0..n {
        let a = rand_dec(&mut r, 300, 400);
        let b = if r.below(5) == 0 {
            // value-equal twin or near twin
            let k = r.below(45);
            let mut t = BigDecimal::new(parts(&a).0 * pow10(k), parts(&a).1 + k as i64);
            if r.below(2) == 0 { t = BigDecimal::new(parts(&t).0 + r.range(-1,1), parts(&t).1); }
            t
        } else { rand_dec(&mut r, 300, 400) };
        let (pa, pb) = (parts(&a), parts(&b));
        // C01
        let s = pa.1.max(pb.1);
        let xa = &pa.0 * pow10((s - pa.1) as u64); let xb = &pb.0 * pow10((s - pb.1) as u64);
        let sum = (&xa + &xb, s); let dif = (&xa - &xb, s); let prd = (&pa.0 * &pb.0, pa.1 + pb.1);
        let eqv = |x: &BigDecimal, y: &(BigInt, i64)| ref_cmp(&parts(x), y) == std::cmp::Ordering::Equal;
        if !eqv(&(&a + &b), &sum) { fail("add_rr", format!("{:?} {:?}", pa, pb)); }
        if !eqv(&(a.clone() + b.clone()), &sum) { fail("add_vv", format!("{:?} {:?}", pa, pb)); }
        if !eqv(&(&a - &b), &dif) { fail("sub_rr", format!("{:?} {:?}", pa, pb)); }
        if !eqv(&(a.clone() - b.clone()), &dif) { fail("sub_vv", format!("{:?} {:?}", pa, pb)); }
        if !eqv(&(a.to_ref() - b.clone()), &dif) { fail("sub_refv", format!("{:?} {:?}", pa, pb)); }
        if !eqv(&(&a * &b), &prd) { fail("mul_rr", format!("{:?} {:?}", pa, pb)); }
        if !eqv(&(a.clone() * b.clone()), &prd) { fail("mul_vv", format!("{:?} {:?}", pa, pb)); }
        if !eqv(&(a.clone() * &b), &prd) { fail("mul_vr", format!("{:?} {:?}", pa, pb)); }
        // C02
        let rc = ref_cmp(&pa, &pb);
        match catch_unwind(|| (a == b, a.cmp(&b))) {
            Ok((e, c)) => { if c != rc { fail("cmp", format!("{:?} {:?}", pa, pb)); } if e != (rc == std::cmp::Ordering::Equal) { fail("eq", format!("{:?} {:?}", pa, pb)); } }
            Err(_) => fail("cmp_panic", format!("{:?} {:?}", pa, pb)),
        }
        // C09
        if !b.is_zero() {
            let rm = (&xa % &xb, s);
            if !eqv(&(&a % &b), &rm) { fail("rem_rr", format!("{:?} {:?}", pa, pb)); }
            if !eqv(&(a.clone() % b.clone()), &rm) { fail("rem_vv", format!("{:?} {:?}", pa, pb)); }
            if !eqv(&(a.clone() % &b), &rm) { fail("rem_vr", format!("{:?} {:?}", pa, pb)); }
            if !eqv(&(&a % b.clone()), &rm) { fail("rem_rv", format!("{:?} {:?}", pa, pb)); }
        }
        // C06
        let mode = *r.pick(&MODES);
        let nd = ref_digits(&pa.0) as i64;
        let ns = match r.below(3) { 0 => pa.1 - nd + r.range(-4, 4), 1 => pa.1 + r.range(-4, 4), _ => r.range(pa.1 - nd - 3, pa.1 + 3) };
        match catch_unwind(|| a.with_scale_round(ns, mode)) {
            Ok(got) => { let want = ref_scale_round(&pa, ns, mode); if parts(&got) != want { fail("with_scale_round", format!("{:?} ns={} {:?} got {:?}", pa, ns, mode, parts(&got))); } }
            Err(_) => fail("wsr_panic", format!("{:?} ns={} {:?}", pa, ns, mode)),
        }
        // C07
        let p = 1 + r.below(nd as u64 + 5);
        let want_scale = pa.1 + (p as i64 - nd);
        let want = ref_scale_round(&pa, want_scale, mode);
        // carry into new digit: reference says value rounded at p-th digit; representation may have p+1 digits
        match catch_unwind(|| a.with_precision_round(std::num::NonZeroU64::new(p).unwrap(), mode)) {
            Ok(got) => { if ref_cmp(&parts(&got), &want) != std::cmp::Ordering::Equal { fail("with_precision_round", format!("{:?} p={} {:?} got {:?}", pa, p, mode, parts(&got))); } }
            Err(_) => fail("wpr_panic", format!("{:?} p={} {:?}", pa, p, mode)),
        }
        let want = ref_scale_round(&pa, want_scale, RoundingMode::HalfUp);
        let got = a.with_prec(p);
        if ref_cmp(&parts(&got), &want) != std::cmp::Ordering::Equal { fail(if pa.0.is_negative() {"with_prec_neg"} else {"with_prec_pos"}, format!("{:?} p={} got {:?} want {:?}", pa, p, parts(&got), want)); }
    }
    for (k, (c, m)) in &fails { let m: String = m.chars().take(300).collect(); println!("{} x{}: {}", k, c, m); }
    println!("done {} fails kinds", fails.len());
}

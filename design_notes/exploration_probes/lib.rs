pub use bigdecimal::*;
pub use num_bigint::{BigInt, BigUint, Sign};
pub use num_traits::{Zero, One, Signed, ToPrimitive};
pub use num_integer::Integer;

pub struct Rng(pub u64);
impl Rng {
    pub fn next(&mut self) -> u64 {
        self.0 = self.0.wrapping_add(0x9E3779B97F4A7C15);
        let mut z = self.0;
        z = (z ^ (z >> 30)).wrapping_mul(0xBF58476D1CE4E5B9);
        z = (z ^ (z >> 27)).wrapping_mul(0x94D049BB133111EB);
        z ^ (z >> 31)
    }
    pub fn below(&mut self, n: u64) -> u64 { self.next() % n }
    pub fn range(&mut self, lo: i64, hi: i64) -> i64 { lo + (self.below((hi - lo + 1) as u64) as i64) }
    pub fn pick<'a, T>(&mut self, v: &'a [T]) -> &'a T { &v[self.below(v.len() as u64) as usize] }
}

pub fn pow10(k: u64) -> BigInt { BigInt::from(10u8).pow(k as u32) }

/// random digit string of length n with pattern
pub fn rand_digits(r: &mut Rng, n: usize) -> String {
    let mut s = String::with_capacity(n);
    let pat = r.below(8);
    for i in 0..n {
        let d = match pat {
            0 => 9,
            1 => if i == 0 { 1 } else { 0 },
            2 => if i == 0 { 1 } else if i == n - 1 { 1 } else { 0 },
            3 => if r.below(4) == 0 { r.below(10) } else { 9 },
            4 => if r.below(4) == 0 { r.below(10) } else { 0 },
            5 => if i < n / 2 { r.below(10) } else if i == n/2 { 5 } else { 0 },
            _ => r.below(10),
        } as u8;
        let d = if i == 0 && d == 0 { 1 + r.below(9) as u8 } else { d };
        s.push((b'0' + d) as char);
    }
    s
}

pub fn rand_len(r: &mut Rng, max: usize) -> usize {
    match r.below(6) {
        0 => 1 + r.below(3) as usize,
        1 => 1 + r.below(20) as usize,
        2 => 15 + r.below(30) as usize,
        3 => 1 + r.below(120) as usize,
        _ => 1 + r.below(max as u64) as usize,
    }
}

pub fn rand_int(r: &mut Rng, maxlen: usize) -> BigInt {
    let n = rand_len(r, maxlen);
    let s = rand_digits(r, n);
    let v: BigInt = s.parse().unwrap();
    if r.below(2) == 0 { -v } else { v }
}

pub fn rand_dec(r: &mut Rng, maxlen: usize, maxscale: i64) -> BigDecimal {
    let i = if r.below(20) == 0 { BigInt::zero() } else { rand_int(r, maxlen) };
    let sc = match r.below(4) { 0 => r.range(-5, 5), 1 => r.range(-50, 50), _ => r.range(-maxscale, maxscale) };
    BigDecimal::new(i, sc)
}

/// exact compare of (i1,s1) vs (i2,s2) using reference arithmetic
pub fn ref_cmp(a: &(BigInt, i64), b: &(BigInt, i64)) -> std::cmp::Ordering {
    let s = a.1.max(b.1);
    let x = &a.0 * pow10((s - a.1) as u64);
    let y = &b.0 * pow10((s - b.1) as u64);
    x.cmp(&y)
}
pub fn parts(d: &BigDecimal) -> (BigInt, i64) { d.as_bigint_and_exponent() }

/// reference rounding of integer n / 10^k to an integer under mode
pub fn ref_round_div(n: &BigInt, k: u64, mode: RoundingMode) -> BigInt {
    let p = pow10(k);
    let (q, r) = n.div_rem(&p); // truncated
    if r.is_zero() { return q; }
    let neg = n.is_negative();
    let twice = (r.abs() * 2u8).cmp(&p);
    use std::cmp::Ordering::*;
    use RoundingMode::*;
    let away = match mode {
        Up => true,
        Down => false,
        Ceiling => !neg,
        Floor => neg,
        HalfUp => twice != Less,
        HalfDown => twice == Greater,
        HalfEven => twice == Greater || (twice == Equal && q.is_odd()),
    };
    if away { if neg { q - 1 } else { q + 1 } } else { q }
}

pub const MODES: [RoundingMode; 7] = [RoundingMode::Up, RoundingMode::Down, RoundingMode::Ceiling, RoundingMode::Floor, RoundingMode::HalfUp, RoundingMode::HalfDown, RoundingMode::HalfEven];

/// reference with_scale_round
pub fn ref_scale_round(v: &(BigInt, i64), new_scale: i64, mode: RoundingMode) -> (BigInt, i64) {
    if new_scale >= v.1 {
        (&v.0 * pow10((new_scale - v.1) as u64), new_scale)
    } else {
        (ref_round_div(&v.0, (v.1 - new_scale) as u64, mode), new_scale)
    }
}
pub fn ref_digits(n: &BigInt) -> u64 { if n.is_zero() { 1 } else { n.magnitude().to_string().len() as u64 } }

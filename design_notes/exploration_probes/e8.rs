use exp::*;
use std::cmp::Ordering::*;
use ::serde::{Serialize, Deserialize};
#[derive(Serialize, Deserialize, Debug)]
#[serde(crate = "::serde")]
struct S { v: BigDecimal }
#[derive(Serialize, Deserialize, Debug)]
#[serde(crate = "::serde")]
struct N { #[serde(with = "bigdecimal::serde::json_num")] v: BigDecimal }
#[derive(Serialize, Deserialize, Debug)]
#[serde(crate = "::serde")]
struct O { #[serde(with = "bigdecimal::serde::json_num_option")] v: Option<BigDecimal> }
fn main() {
    let seed: u64 = std::env::args().nth(1).map(|s| s.parse().unwrap()).unwrap_or(1);
    let n: u64 = std::env::args().nth(2).map(|s| s.parse().unwrap()).unwrap_or(20000);
    let mut r = Rng(seed);
    std::panic::set_hook(Box::new(|_| {}));
    let mut fails = std::collections::BTreeMap::<String, (u64, String)>::new();
    let mut fail = |k: &str, msg: String| { let e = fails.entry(k.to_string()).or_insert((0, msg)); e.0 += 1; };
    for _ in 0..n {
        let sc = match r.below(5) { 0 => r.range(-40, 60), 1 => *r.pick(&[150000i64, 149999, 150001, -150000, -149999, -150001]), 2 => r.range(-150000, 150000), _ => r.range(-400, 400) };
        let i = if r.below(10) == 0 { BigInt::zero() } else { rand_int(&mut r, 400) };
        let a = BigDecimal::new(i, sc); let pa = parts(&a);
        // string form
        match std::panic::catch_unwind(|| serde_json::to_string(&S { v: a.clone() })) {
            Err(_) => fail("ser_panic", format!("{:?}", pa)),
            Ok(Err(e)) => fail("ser_err", format!("{:?} {}", pa, e)),
            Ok(Ok(js)) => match serde_json::from_str::<S>(&js) { Err(e) => fail("de_err", format!("{:?} {} {}", pa, js.chars().take(80).collect::<String>(), e)), Ok(b) => { let pb = parts(&b.v); if ref_cmp(&pa, &pb) != Equal { fail("str_value", format!("{:?}", pa)); } else if pb != pa && !(-15..=-1).contains(&pa.1) { fail("str_scale", format!("{:?} -> {:?}", pa, pb)); } } }
        }
        // json_num
        match std::panic::catch_unwind(|| serde_json::to_string(&N { v: a.clone() })) {
            Err(_) => fail("num_ser_panic", format!("{:?}", pa)),
            Ok(Err(e)) => fail("num_ser_err", format!("{:?} {}", pa, e)),
            Ok(Ok(js)) => match std::panic::catch_unwind(|| serde_json::from_str::<N>(&js)) { Err(_) => fail("num_de_panic", format!("{:?}", pa)), Ok(Err(e)) => { let within = pa.1.abs() <= 150000; fail(&format!("num_de_err within_limit={}", within), format!("{:?} {} {}", pa, js.chars().take(60).collect::<String>(), e)) }, Ok(Ok(b)) => { let pb = parts(&b.v); if ref_cmp(&pa, &pb) != Equal { fail("num_value", format!("{:?} {:?}", pa, pb)); } if pb.1.abs() > 150000 { fail("num_limit_not_enforced", format!("{:?} -> {:?}", pa, pb)); } } }
        }
        match std::panic::catch_unwind(|| serde_json::to_string(&O { v: Some(a.clone()) })) {
            Err(_) => fail("opt_ser_panic", format!("{:?}", pa)),
            Ok(Err(e)) => fail("opt_ser_err", format!("{:?} {}", pa, e)),
            Ok(Ok(js)) => match std::panic::catch_unwind(|| serde_json::from_str::<O>(&js)) { Err(_) => fail("opt_de_panic", format!("{:?}", pa)), Ok(Err(e)) => fail("opt_de_err", format!("{:?} {}", pa, e)), Ok(Ok(b)) => { let pb = parts(&b.v.unwrap()); if ref_cmp(&pa, &pb) != Equal { fail("opt_value", format!("{:?} {:?}", pa, pb)); } } }
        }
        // JSON documents with raw numbers
        let mx = if r.below(10)==0 {2000} else {40}; let nd = 1 + r.below(mx) as usize; let ds = rand_digits(&mut r, nd);
        let fd = r.below(30) as usize; let fs = if fd > 0 { format!(".{}", rand_digits(&mut r, fd).chars().rev().collect::<String>()) } else { String::new() };
        let es = match r.below(4) { 0 => format!("e{}", r.range(-300, 300)), 1 => format!("E+{}", r.below(50)), _ => String::new() };
        let num = format!("{}{}{}{}", if r.below(2)==0 {"-"} else {""}, ds, fs, es);
        let doc = format!("{{\"v\":{}}}", num);
        let want = num.parse::<BigDecimal>().unwrap();
        for (k, got) in [("doc_default", serde_json::from_str::<S>(&doc).map(|x| x.v)), ("doc_num", serde_json::from_str::<N>(&doc).map(|x| x.v)), ("doc_opt", serde_json::from_str::<O>(&doc).map(|x| x.v.unwrap())), ("doc_strnum", serde_json::from_str::<S>(&format!("{{\"v\":\"{}\"}}", num)).map(|x| x.v))] {
            match got { Err(e) => fail(&format!("{}_err", k), format!("{} {}", num.chars().take(80).collect::<String>(), e)), Ok(g) => if parts(&g) != parts(&want) { fail(k, format!("{} -> {:?}", num.chars().take(80).collect::<String>(), parts(&g))); } }
        }
        // Value route
        let val: serde_json::Value = serde_json::from_str(&doc).unwrap();
        match serde_json::from_value::<S>(val) { Err(e) => fail("value_err", format!("{} {}", num.chars().take(60).collect::<String>(), e)), Ok(g) => if parts(&g.v) != parts(&want) { fail("value_route", format!("{} -> {:?}", num.chars().take(60).collect::<String>(), parts(&g.v))); } }
    }
    // null and malformed
    println!("null opt: {:?}", serde_json::from_str::<O>("{\"v\":null}").map(|o| o.v));
    println!("ser none: {:?}", serde_json::to_string(&O{v:None}));
    for bad in ["{\"v\":nan}", "{\"v\":1e}", "{\"v\":\"abc\"}", "{\"v\":[1]}", "{\"v\":1e999999999999}", "{\"v\":true}", "{\"v\":{}}", "{\"v\":-}", "{\"v\":1e150001}", "{\"v\":1e150000}", "{\"v\":1e-150001}", "{\"v\":\"1e150001\"}"] {
        let a = std::panic::catch_unwind(|| (serde_json::from_str::<S>(bad).map(|x| parts(&x.v)).map_err(|e| e.to_string()), serde_json::from_str::<N>(bad).map(|x| parts(&x.v)).map_err(|e| e.to_string()), serde_json::from_str::<O>(bad).map(|x| x.v.map(|v| parts(&v))).map_err(|e| e.to_string())));
        println!("{} -> {:?}", bad, a);
    }
    for (k, (c, m)) in &fails { let m: String = m.chars().take(300).collect(); println!("{} x{}: {}", k, c, m); }
    println!("done {} fails kinds", fails.len());
}

import sys
from decimal import *
getcontext().prec=150
getcontext().Emax=MAX_EMAX; getcontext().Emin=MIN_EMIN
worst=Decimal(0); bad=0; n=0; nonpos=0
for line in sys.stdin:
    xs,rs=line.split()
    x=Decimal(xs); r=Decimal(rs); n+=1
    t=x.exp()
    if r<=0: nonpos+=1; print("NONPOS",xs,rs[:40]); continue
    # unit in last (100th) digit of true value
    ulp=Decimal(1).scaleb(t.adjusted()-99)
    err=abs(r-t)/ulp
    if err>worst: worst=err; wx=xs
    if err>1: bad+=1; 
    if err>1 and bad<6: print("BAD",xs,float(err))
    if x==0 and r!=1: print("exp0 bad")
    if len(r.as_tuple().digits)!=100 and x!=0: print("DIGITS",xs,len(r.as_tuple().digits))
print("n",n,"bad",bad,"nonpos",nonpos,"worst ulp",float(worst),wx)

use exp::*;
use std::str::FromStr;
/// reference recognizer: returns Some((int, scale)) if s is a decimal numeral per C05
fn ref_parse(s: &str) -> Option<(BigInt, i64)> {
    let b = s.as_bytes();
    let epos = b.iter().position(|&c| c == b'e' || c == b'E');
    let (mant, exp): (&[u8], i128) = match epos {
        None => (b, 0),
        Some(p) => {
            let e = &b[p+1..];
            let (neg, ds) = match e.first() { Some(b'+') => (false, &e[1..]), Some(b'-') => (true, &e[1..]), _ => (false, e) };
            if ds.is_empty() || !ds.iter().all(|c| c.is_ascii_digit()) { return None; }
            // magnitude; treat > 40 digits as overflow unless all zeros... compute with saturating big
            let v: BigInt = std::str::from_utf8(ds).unwrap().parse().unwrap();
            let v = if neg { -v } else { v };
            match v.to_i128() { Some(x) => (&b[..p], x), None => return None }
        }
    };
    let (neg, m) = match mant.first() { Some(b'+') => (false, &mant[1..]), Some(b'-') => (true, &mant[1..]), _ => (false, mant) };
    let mut seen_dot = false; let mut seen_digit = false; let mut frac = 0i128; let mut digs = String::new();
    for &c in m {
        match c {
            b'0'..=b'9' => { seen_digit = true; digs.push(c as char); if seen_dot { frac += 1; } }
            b'.' => { if seen_dot { return None; } seen_dot = true; }
            b'_' => { if !seen_digit { return None; } }
            _ => return None,
        }
    }
    if !seen_digit { return None; }
    let scale = frac.checked_sub(exp)?; let scale = i64::try_from(scale).ok()?;
    let v: BigInt = digs.parse().unwrap();
    Some((if neg { -v } else { v }, scale))
}
fn main() {
    let maxlen: usize = std::env::args().nth(1).map(|s| s.parse().unwrap()).unwrap_or(5);
    let alpha = b"017+-.eE_x ";
    let mut classes = std::collections::BTreeMap::<String, (u64, String)>::new();
    let mut total = 0u64; let mut accepted = 0u64;
    let mut buf = Vec::new();
    for len in 0..=maxlen {
        let mut idx = vec![0usize; len];
        loop {
            buf.clear(); for &i in &idx { buf.push(alpha[i]); }
            let s = std::str::from_utf8(&buf).unwrap();
            total += 1;
            let got = std::panic::catch_unwind(|| BigDecimal::from_str(s).ok().map(|d| parts(&d)));
            let want = ref_parse(s);
            match got { Err(_) => { classes.entry("panic".into()).or_insert((0, s.to_string())).0 += 1; }
              Ok(g) => { if g.is_some() { accepted += 1; } if g != want {
                let k = format!("{}", match (&g, &want) { (Some(_), None) => "accepted_but_invalid", (None, Some(_)) => "rejected_but_valid", _ => "wrong_value" });
                classes.entry(k).or_insert((0, format!("{:?} got {:?} want {:?}", s, g, want))).0 += 1; } } }
            // increment
            let mut i = len; loop { if i == 0 { break; } i -= 1; idx[i] += 1; if idx[i] < alpha.len() { break; } idx[i] = 0; if i == 0 { i = usize::MAX; break; } }
            if len == 0 || i == usize::MAX { break; }
        }
    }
    println!("total {} accepted {}", total, accepted);
    for (k, (c, m)) in &classes { println!("{} x{}: {}", k, c, m); }
}

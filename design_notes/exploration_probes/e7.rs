use exp::*;
use std::num::NonZeroU64;
use std::cmp::Ordering::*;
fn main() {
    let a: Vec<String> = std::env::args().collect();
    let prec: u64 = a[1].parse().unwrap(); let mode = MODES.iter().find(|m| format!("{:?}", m) == a[2]).unwrap().clone();
    let lo: usize = a[3].parse().unwrap(); let hi: usize = a[4].parse().unwrap(); let pad: usize = a[5].parse().unwrap();
    let ctx = Context::new(NonZeroU64::new(prec).unwrap(), mode);
    let d = Context::default();
    println!("default ctx: {} {:?}  (want {} {:?}); RoundingMode::default={:?}", d.precision(), d.rounding_mode(), prec, mode, RoundingMode::default());
    let mut r = Rng(7);
    let mut fails = std::collections::BTreeMap::<String, (u64, String)>::new();
    let mut fail = |k: &str, msg: String| { let e = fails.entry(k.to_string()).or_insert((0, msg)); e.0 += 1; };
    for it in 0..20000u64 {
        let x = if it < 2000 { BigDecimal::new(BigInt::from(it % 1000 + 1), (it / 1000) as i64) } else { rand_dec(&mut r, 60, 30) };
        let px = parts(&x);
        if !x.is_negative() { if x.sqrt() != x.sqrt_with_context(&ctx) { fail("sqrt", format!("{:?}", px)); } }
        if x.cbrt() != x.cbrt_with_context(&ctx) { fail("cbrt", format!("{:?}", px)); }
        if !x.is_zero() { if x.inverse() != x.inverse_with_context(&ctx) { fail("inverse", format!("{:?}", px)); } }
        let rd = r.range(-5, 10);
        if parts(&x.round(rd)) != parts(&x.with_scale_round(rd, mode)) { fail("round", format!("{:?} {}", px, rd)); }
        // division digits
        let y = if it < 2000 { BigDecimal::from((it * 7) % 999 + 1) } else { rand_dec(&mut r, 20, 10) };
        if !y.is_zero() && !x.is_zero() {
            let q = &x / &y; let pq = parts(&q); let py = parts(&y);
            // exact?
            let s1 = pq.1 + py.1; let s = s1.max(px.1);
            let lhs = &pq.0 * &py.0 * pow10((s - s1) as u64); let rhs = &px.0 * pow10((s - px.1) as u64);
            if lhs != rhs {
                let gd = ref_digits(&pq.0);
                if gd < prec { fail("div_short", format!("{:?}/{:?} -> {:?}", px, py, pq)); }
                let diff2: BigInt = (&lhs - &rhs).abs() * 2; let half = py.0.abs() * pow10((s - s1) as u64);
                if diff2 > half { fail("div_ulp", format!("{:?}/{:?} -> {:?}", px, py, pq)); }
                // and not more digits than needed: if first-quotient had <= prec digits then exactly prec (or prec+1 on carry)
                if gd > prec + 1 && ref_digits(&(&px.0 / &py.0)) <= prec { fail("div_long", format!("{:?}/{:?} -> {:?}", px, py, pq)); }
            } else {
                // exact result returned; fine. But if exact quotient needs > prec digits it should have been rounded: exactness with gd>prec only allowed if integer quotient
            }
        }
        // exp digits
        if it % 50 == 0 { let small = BigDecimal::new(BigInt::from(r.range(-3000, 3000)), 2); if !small.is_zero() { let e = small.exp(); if e.digits() != prec { fail("exp_digits", format!("{:?} -> {:?}", parts(&small), parts(&e))); } } }
        // precision formatting uses default mode
        let np = r.below(8) as usize; let s = format!("{:.*}", np, x);
        if let Ok(b) = s.parse::<BigDecimal>() { let want = ref_scale_round(&px, np as i64, mode); if parts(&b) != want && !(px.1 <= 0) { fail("fmt_prec_mode", format!("{:?} N={} -> {} want {:?}", px, np, s, want)); } }
        // display thresholds
        let s = format!("{}", x); let nd = ref_digits(&px.0) as i64;
        if px.1 > 0 { let lz = (px.1 - nd).max(0) as usize; let is_exp = s.contains('E'); if is_exp != (lz > lo) { fail("display_lo", format!("{:?} -> {} lz={}", px, s, lz)); } }
        else if px.1 < 0 && !px.0.is_zero() { let tz = (-px.1) as usize; let is_exp = s.contains('e'); if is_exp != (tz > hi) { fail("display_hi", format!("{:?} -> {} tz={}", px, s, tz)); } }
    }
    let _ = pad;
    for (k, (c, m)) in &fails { let m: String = m.chars().take(300).collect(); println!("{} x{}: {}", k, c, m); }
    println!("done {} fails kinds", fails.len());
}

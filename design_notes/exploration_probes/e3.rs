use exp::*;
use std::num::NonZeroU64;
use std::cmp::Ordering::*;
// inverse focused: exactly-rounded reference of 1/x under mode at p digits, report per-p stats of: exact-match, within-1ulp, beyond
fn ref_inv(n: &BigInt, sc: i64, p: u64, mode: RoundingMode) -> (BigInt, i64) {
    let mag = BigInt::from(n.magnitude().clone());
    let d = mag.to_string().len() as i64;
    let e = if mag == pow10((d-1) as u64) { sc - d + 1 } else { sc - d };
    let uexp = e - p as i64 + 1;
    // 1/x / 10^uexp = 10^(sc-uexp)/n
    let k = sc - uexp; assert!(k >= 0);
    let num = pow10(k as u64);
    let (q, r) = num.div_rem(&mag);
    let neg = n.is_negative();
    let r2: BigInt = &r * 2; let twice = r2.cmp(&mag);
    use RoundingMode::*;
    let away = if r.is_zero() { false } else { match mode { Up => true, Down => false, Ceiling => !neg, Floor => neg, HalfUp => twice != Less, HalfDown => twice == Greater, HalfEven => twice == Greater || (twice == Equal && q.is_odd()) } };
    let q = if away { q + 1 } else { q };
    (if neg { -q } else { q }, -uexp)
}
fn main() {
    let seed: u64 = std::env::args().nth(1).map(|s| s.parse().unwrap()).unwrap_or(1);
    let n: u64 = std::env::args().nth(2).map(|s| s.parse().unwrap()).unwrap_or(20000);
    let mut r = Rng(seed);
    let mut stats = std::collections::BTreeMap::<(u64, String), (u64, u64, u64, String)>::new();
    for _ in 0..n {
        let a = match r.below(3) { 0 => { let i = r.below(40) as u32; let j = r.below(20) as u32; BigDecimal::new(BigInt::from(2).pow(i) * BigInt::from(5).pow(j) * (if r.below(2)==0 {1} else {-1}), r.range(-30, 30)) }, _ => rand_dec(&mut r, 60, 100) };
        if a.is_zero() || a.is_one() { continue; }
        let pa = parts(&a);
        for p in [1u64, 2, 3, 4, 5, 6, 7, 10, 20, 50, 100] {
            let mode = *r.pick(&MODES);
            let ctx = Context::new(NonZeroU64::new(p).unwrap(), mode);
            let got = parts(&a.inverse_with_context(&ctx));
            let want = ref_inv(&pa.0, pa.1, p, mode);
            let e = stats.entry((p, format!("{:?}{}", mode, if pa.0.is_negative() {"-"} else {"+"}))).or_insert((0, 0, 0, String::new()));
            if ref_cmp(&got, &want) == Equal { e.0 += 1; } else {
                // ulps off
                let s = got.1.max(want.1);
                let g = &got.0 * pow10((s - got.1) as u64); let w = &want.0 * pow10((s - want.1) as u64);
                let ulp = pow10((s - want.1) as u64);
                if (&g - &w).abs() <= ulp { e.1 += 1; if e.3.is_empty() || p >= 4 && e.1 == 1 { e.3 = format!("1ulp: {:?} got {:?} want {:?}", pa, got, want); } } else { e.2 += 1; e.3 = format!("BAD: {:?} got {:?} want {:?}", pa, got, want); }
            }
        }
    }
    for ((p, m), (ok, one, bad, ex)) in &stats { println!("p={} {}: ok={} 1ulp={} bad={} {}", p, m, ok, one, bad, ex.chars().take(200).collect::<String>()); }
}

#!/bin/bash
# run every registered check of a tier sequentially; print one line per check
# (PROPS="06 07" restricts the run to some properties)
T=${1:-quick}
cd "$(dirname "$0")/.."
for i in ${PROPS:-01 02 03 04 05 06 07 08 09 10 11 12 13 14 15 16 17 18 19 20}; do
  s=$(date +%s)
  out=$(./check C$i $T 2>/tmp/runall_C$i.err); rc=$?
  e=$(date +%s)
  echo "C$i exit=$rc $((e-s))s | $(echo "$out" | grep -E '^(OK|VIOLATION|INCONCLUSIVE|KNOWN)' | head -3 | tr '\n' ' ' | cut -c1-400)"
done

#!/usr/bin/env python3
"""Mutation self-test: run the quick (or thorough) check of the owning property against every
seeded change under /verif/seeded/, each applied to a scratch worktree of /repo (never to /repo
itself), several in parallel.  Writes /verif/seeded/RESULTS.json.

usage: tools/mutest.py [--tier quick|thorough] [--seed S] [--jobs N] [--only C01-m1,C02-m3] [--prop-override C19=C01]
"""
import json, os, subprocess, sys, glob, shutil, time
from concurrent.futures import ThreadPoolExecutor

VERIF = "/verif"
args = sys.argv[1:]
tier = "quick"
jobs = 4
only = None
extra_props = {}
i = 0
while i < len(args):
    if args[i] == "--tier": tier = args[i+1]; i += 2
    elif args[i] == "--jobs": jobs = int(args[i+1]); i += 2
    elif args[i] == "--only": only = set(args[i+1].split(",")); i += 2
    elif args[i] == "--seed": os.environ["VERIF_SEED"] = args[i+1]; i += 2
    elif args[i] == "--also":
        # --also C19-m1=C01  : additionally run another property's check on a mutant
        k, v = args[i+1].split("="); extra_props.setdefault(k, []).append(v); i += 2
    else: i += 1

muts = sorted(d for d in glob.glob(VERIF + "/seeded/C*-*") if os.path.exists(d + "/patch.diff"))
if only:
    muts = [m for m in muts if os.path.basename(m) in only]
head = subprocess.check_output(["git", "-C", "/repo", "rev-parse", "HEAD"], text=True).strip()

def worker_dir(k):
    d = "/tmp/mutwt/w%d" % k
    if not os.path.exists(d):
        os.makedirs("/tmp/mutwt", exist_ok=True)
        subprocess.check_call(["git", "-C", "/repo", "worktree", "add", "-q", "--detach", d, head])
    subprocess.check_call(["git", "-C", d, "reset", "-q", "--hard"])
    subprocess.run(["git", "-C", d, "clean", "-fdq"])
    subprocess.check_call(["git", "-C", d, "checkout", "-q", "--detach", head])
    return d

import queue
free = queue.Queue()
for k in range(jobs):
    free.put(k)

def run_one(m):
    name = os.path.basename(m)
    prop = name.split("-")[0]
    k = free.get()
    try:
        d = worker_dir(k)
        ap = subprocess.run(["git", "-C", d, "apply", "--3way", m + "/patch.diff"], capture_output=True, text=True)
        if ap.returncode != 0:
            ap = subprocess.run(["git", "-C", d, "apply", m + "/patch.diff"], capture_output=True, text=True)
        if ap.returncode != 0:
            return name, {"status": "patch-does-not-apply", "detail": ap.stderr[-300:]}
        res = {}
        for pr in [prop] + extra_props.get(name, []):
            env = dict(os.environ, BDVERIF_REPO=d)
            meta = {}
            try: meta = json.load(open(m + "/meta.json"))
            except Exception: pass
            import re
            for kv in str(meta.get("env") or "").split():
                if re.match(r"^[A-Z][A-Z0-9_]*=[^ ]+$", kv):
                    a, b = kv.split("=", 1); env[a] = b
            t0 = time.time()
            r = subprocess.run([VERIF + "/check", pr, tier], cwd=VERIF, env=env, capture_output=True, text=True)
            lines = [l for l in r.stdout.splitlines() if l.startswith(("VIOLATION", "INCONCLUSIVE", "OK", "KNOWN"))]
            detail = [l for l in r.stderr.splitlines() if l.startswith("  ")][:2]
            res[pr] = {"exit": r.returncode, "detected": r.returncode == 1, "lines": lines[:3], "detail": [x[:300] for x in detail], "wall_s": round(time.time() - t0, 1)}
            # how many monitored cases fired (fragile detections have tiny counts)
            try:
                import hashlib
                suffix = "-alt-" + hashlib.sha1(d.encode()).hexdigest()[:8]
                ev = json.load(open(os.path.join(VERIF, "run", "alt" + suffix, "evidence", pr + ".json")))
                res[pr]["violating_cases"] = ev.get("violations")
                res[pr]["violation_signatures"] = ev["coverage"].get("violation_signatures")
            except Exception:
                pass
        subprocess.check_call(["git", "-C", d, "checkout", "-q", "--", "."])
        subprocess.run(["git", "-C", d, "clean", "-fdq"])
        return name, res
    finally:
        free.put(k)

results = {}
with ThreadPoolExecutor(max_workers=jobs) as ex:
    for name, res in ex.map(run_one, muts):
        results[name] = res
        print(name, json.dumps({k: (v["exit"] if isinstance(v, dict) and "exit" in v else v) for k, v in res.items()}) if isinstance(res, dict) else res, flush=True)

out = VERIF + "/seeded/RESULTS.json"
old = {}
if os.path.exists(out):
    old = json.load(open(out))
key = tier if os.environ.get("VERIF_SEED", "1") == "1" else "%s-seed%s" % (tier, os.environ["VERIF_SEED"])
old.setdefault(key, {}).update(results)
old["base_commit"] = head[:10]
json.dump(old, open(out, "w"), indent=1, sort_keys=True)
det = sum(1 for r in results.values() if isinstance(r, dict) and any(isinstance(v, dict) and v.get("detected") for v in r.values()))
print("detected %d of %d" % (det, len(results)))

#!/usr/bin/env python3
"""Print the markdown table (change | what it does | what it needs) for the seeded changes of one round tag.
usage: tools/seeded_table.py w"""
import json, glob, os, sys, re
tag = sys.argv[1]
def cut(s, n=170):
    s = re.sub(r"\s+", " ", str(s)).replace("|", "/").replace("*", "/")
    return s if len(s) <= n else s[:n] + "…"
print("| change | what it does | what it needs |\n|---|---|---|")
for d in sorted(glob.glob(os.path.dirname(os.path.abspath(__file__)) + "/../seeded/C??-%s*" % tag)):
    m = json.load(open(d + "/meta.json"))
    print("| %s | %s | %s |" % (os.path.basename(d), cut(m.get("summary", "")), cut(m.get("needs", ""), 150)))

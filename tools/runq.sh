#!/bin/bash
# dev helper: run one property's quick tier with the release binary and summarise
P=$1; T=${2:-quick}; S=${3:-1}
/usr/bin/time -f "%es wall" /verif/harness/target-rel/release/bdverif run $P --tier $T --seed $S --out /verif/run/$P.dev.json || exit 1
python3 - <<PY
import json;j=json.load(open('/verif/run/$P.dev.json'))
for k in ['evaluations','cases','held','distinct_nontrivial','panics_caught','violation_counts','distinct_path_signatures','unreached_probes','max_loop_iterations','notes','exhaustive_subspaces']: print(' ',k,j[k])
for v in j['violations'][:8]: print('  V',v['sig'],'|',v['detail'][:400],'|',[t[:80] for t in v['case']])
print(' ',json.dumps(j['samples'][:1])[:600])
PY

#!/bin/bash
# Confirm sub-agent mutants in a scratch worktree (outside /repo and /verif):
#   patch applies, whole test suite passes with it (default and serde-json features),
#   the demonstration fails with it and passes without it.
# Confirmed mutants are copied to /verif/seeded/<prop>-<mN>/ with a confirmation record.
# usage: confirm_mutants.sh C01 C02 ...
set -u
W=/tmp/confirm_wt
export CARGO_NET_OFFLINE=true
if [ ! -d $W ]; then git -C /repo worktree add -q --detach $W HEAD; fi
git -C $W checkout -q --detach $(git -C /repo rev-parse HEAD)
for P in "$@"; do
  for M in /tmp/mut/$P/mutants/m*; do
    [ -f $M/patch.diff ] || continue
    N=$(basename $M)
    OUT=/verif/seeded/$P-$N
    [ -f $OUT/confirmed.json ] && continue
    cd $W && git checkout -q -- . && git clean -fdq -e target
    mkdir -p tests
    LOG=/tmp/confirm_$P-$N.log; : > $LOG
    if ! git apply $M/patch.diff 2>>$LOG; then echo "$P-$N: PATCH DOES NOT APPLY"; continue; fi
    FEAT=""
    cargo test --offline --no-fail-fast >>$LOG 2>&1; T1=$?
    cargo test --offline --no-fail-fast --features serde-json >>$LOG 2>&1; T2=$?
    cp $M/demo.rs tests/demo.rs
    if grep -q "serde" $M/demo.rs; then FEAT="--features serde-json"; fi
    ENVV=$(python3 -c "
import json,sys
try:
    m=json.load(open('$M/meta.json')); print(m.get('env',''))
except Exception: print('')
")
    env $ENVV cargo test --offline $FEAT --test demo >>$LOG 2>&1; D1=$?
    git checkout -q -- . 
    env $ENVV cargo test --offline $FEAT --test demo >>$LOG 2>&1; D0=$?
    rm -f tests/demo.rs
    if [ $T1 -eq 0 ] && [ $T2 -eq 0 ] && [ $D1 -ne 0 ] && [ $D0 -eq 0 ]; then
      mkdir -p $OUT && cp $M/patch.diff $M/demo.rs $M/meta.json $OUT/
      echo "{\"suite_default\": \"pass\", \"suite_serde_json\": \"pass\", \"demo_with_patch\": \"fail\", \"demo_without_patch\": \"pass\", \"base_commit\": \"$(git -C /repo rev-parse --short HEAD)\"}" > $OUT/confirmed.json
      echo "$P-$N: confirmed"
    else
      echo "$P-$N: NOT confirmed (suite=$T1/$T2 demo_with=$D1 demo_without=$D0) see $LOG"
    fi
  done
done
cd $W && git checkout -q -- . && git clean -fdq -e target

#!/bin/bash
# Second-round variant of confirm_mutants.sh: mutants live in /tmp/mut2/R<k>/mutants/m<n>, the owning
# property is read from meta.json, the seeded name is <prop>-x<k><n>.
set -u
W=${CONFIRM_WT:-/tmp/confirm_wt}
export CARGO_NET_OFFLINE=true
if [ ! -d $W ]; then git -C /repo worktree add -q --detach $W HEAD; fi
git -C $W reset -q --hard; git -C $W checkout -q --detach $(git -C /repo rev-parse HEAD)
BASE=${1:-/tmp/mut2}; TAG=${2:-x}
for M in ${CONFIRM_GLOB:-$BASE/*/mutants/m*}; do
    [ -f $M/patch.diff ] || continue
    K=$(echo $M | sed "s|.*/[A-Z]\([0-9]*\)/mutants/m\([0-9]*\)|\1\2|")
    P=$(python3 -c "
import json,re
m=json.load(open('$M/meta.json')); p=str(m.get('property',''))
r=re.findall(r'C\d\d',p); print(r[0] if r else 'C00')")
    OUT=/verif/seeded/$P-$TAG$K
    [ -f $OUT/confirmed.json ] && continue
    cd $W && git reset -q --hard && git clean -fdq -e target
    mkdir -p tests
    LOG=/tmp/confirm_$P-$TAG$K.log; : > $LOG
    if ! git apply $M/patch.diff 2>>$LOG; then echo "$P-$TAG$K: PATCH DOES NOT APPLY"; continue; fi
    FEAT=""
    cargo test --offline --no-fail-fast >>$LOG 2>&1; T1=$?
    cargo test --offline --no-fail-fast --features serde-json >>$LOG 2>&1; T2=$?
    cp $M/demo.rs tests/demo.rs
    if grep -q "serde" $M/demo.rs; then FEAT="--features serde-json"; fi
    ENVV=$(python3 -c "
import json
try:
    import re
    m=json.load(open('$M/meta.json')); print(' '.join(t for t in str(m.get('env','') or '').split() if re.match(r'^[A-Z][A-Z0-9_]*=[^ ]+$', t)))
except Exception: print('')
")
    env $ENVV cargo test --offline $FEAT --test demo >>$LOG 2>&1; D1=$?
    git checkout -q -- src build.rs
    env $ENVV cargo test --offline $FEAT --test demo >>$LOG 2>&1; D0=$?
    rm -f tests/demo.rs
    if [ $T1 -eq 0 ] && [ $T2 -eq 0 ] && [ $D1 -ne 0 ] && [ $D0 -eq 0 ]; then
      mkdir -p $OUT && cp $M/patch.diff $M/demo.rs $M/meta.json $OUT/
      echo "{\"suite_default\": \"pass\", \"suite_serde_json\": \"pass\", \"demo_with_patch\": \"fail\", \"demo_without_patch\": \"pass\", \"base_commit\": \"$(git -C /repo rev-parse --short HEAD)\", \"round\": \"$TAG\"}" > $OUT/confirmed.json
      echo "$P-$TAG$K: confirmed"
    else
      echo "$P-$TAG$K: NOT confirmed (suite=$T1/$T2 demo_with=$D1 demo_without=$D0) see $LOG"
    fi
done
cd $W && git reset -q --hard && git clean -fdq -e target

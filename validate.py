#!/usr/bin/env python3
"""Validate MANIFEST.json and evidence/*.json against the given schemas (uses the tooling venv's jsonschema)."""
import json, sys, glob
import jsonschema
ok = True
m = json.load(open('/verif/MANIFEST.json'))
jsonschema.validate(m, json.load(open('/root/.vp/MANIFEST.schema.json')))
print("MANIFEST valid; checks:", len(m["checks"]), "not_applicable:", len(m.get("not_applicable", [])))
s = json.load(open('/root/.vp/EVIDENCE.schema.json'))
for p in sorted(glob.glob('/verif/evidence/*.json')):
    try:
        jsonschema.validate(json.load(open(p)), s)
        print(p, "valid")
    except Exception as e:
        ok = False
        print(p, "INVALID", str(e)[:300])
sys.exit(0 if ok else 1)
